// c09: correspondence harness for the journalled StateDB (property C09). Drives the real core/state package in-process
// over state.NewDatabase(aquadb.NewMemDatabase()).
//
// One case = one history (a list of actions). After every action all getters of the tracked accounts/slots, the refund
// counter, the logs, the preimages and the dirty-set bookkeeping are dumped; the Lean model replays the same actions and
// must produce the same dumps. Independently of the model the harness judges the property directly on the real code:
//
//	J1 revert-not-exact       after RevertToSnapshot(id) the view equals the view recorded when Snapshot returned id
//	J2 root-not-content       a root returned by IntermediateRoot/Commit equals the root of a plain trie.Trie built from the
//	                          content the getters report after the call (spec definition of the state root)
//	J3 reopen-differs         state.New(committedRoot)/Reset(committedRoot) reads back the committed view
//	J4 copy-differs           Copy() reads back identically and stays independent of the original
//	J6 erased-history-differs the history with every reverted segment erased, replayed on a fresh StateDB opened at the last
//	                          committed root, gives the same view and the same root at every Finalise/IntermediateRoot/Commit
//	                          (two histories with the same net effect)
//
// Known defects of the code as written are reported with stable signatures (see findings/KNOWN_FINDINGS.jsonl).
package main

import (
	"bytes"
	"encoding/json"
	"fmt"
	"math/big"
	"os"
	"sort"
	"strconv"
	"strings"
	"time"

	"gitlab.com/aquachain/aquachain/aquadb"
	"gitlab.com/aquachain/aquachain/common"
	"gitlab.com/aquachain/aquachain/core/state"
	"gitlab.com/aquachain/aquachain/core/types"
	"gitlab.com/aquachain/aquachain/crypto"
	"gitlab.com/aquachain/aquachain/rlp"
	"gitlab.com/aquachain/aquachain/trie"
	"verifharness/hx"
)

const (
	nAddr  = 5 // tracked addresses 1..5 (3 is the RIPEMD precompile special-cased by touchChange.undo)
	nSlot  = 3 // tracked storage slots 0..2
	nHash  = 3 // preimage keys 0..2
	nTxh   = 3 // transaction hashes 0..2
	sigF1  = "F1:reverted-write-leaves-account-dirty:preexisting-empty-account-deleted-by-finalise(true)"
	sigF2  = "F2:reverted-touch-disarms-dirty-tracking:later-write-to-the-account-never-reaches-the-trie"
	sigF4  = "F4:touch-of-ripemd-0x03-is-deliberately-not-reverted:empty-account-0x03-deleted-by-finalise(true)"
	kindF4 = "revert-through-finalise-ripemd"
	sigF3  = "F3:finalise(false)-after-finalise(true)-reinserts-account-deleted-as-empty:existence-differs-from-view"
	kindF1 = "revert-through-finalise"
	kindF2 = "lost-write-after-reverted-touch"
	kindF3 = "mixed-flags-tombstone-reinserted"
	sigF3c = "F3:finalise(false)-after-finalise(true)-reinserts-account-deleted-as-empty:commit-fails-on-dangling-storage-root"
)

func addr(i int) common.Address { return common.BytesToAddress([]byte{byte(i)}) }
func slot(k int) common.Hash    { return common.BytesToHash([]byte{byte(k)}) }
func hsh(k int) common.Hash     { return common.BytesToHash([]byte{0xaa, byte(k)}) }
func txh(k int) common.Hash {
	if k == 0 {
		return common.Hash{}
	}
	return common.BytesToHash([]byte{0xbb, byte(k)})
}

var emptyRoot = common.HexToHash("56e81f171bcc55a6ff8345e692c0f86e5b48e01b996cadc001622fb5e363b421")

func bigOf(s string) *big.Int {
	v, ok := new(big.Int).SetString(s, 10)
	if !ok {
		panic("bad int " + s)
	}
	return v
}
func atoi(s string) int {
	n, err := strconv.Atoi(s)
	if err != nil {
		panic("bad int " + s)
	}
	return n
}

// ---------------------------------------------------------------------------------------------------------------------
// observation

type acctV struct {
	exists   bool
	nonce    uint64
	bal      *big.Int
	code     []byte
	suicided bool
	st       [nSlot]*big.Int
}

func readAcct(s *state.StateDB, i int) acctV {
	a := addr(i)
	v := acctV{exists: s.Exist(a), nonce: s.GetNonce(a), bal: new(big.Int).Set(s.GetBalance(a)), code: s.GetCode(a), suicided: s.HasSuicided(a)}
	for k := 0; k < nSlot; k++ {
		v.st[k] = s.GetState(a, slot(k)).Big()
	}
	return v
}

func (v acctV) isEmpty() bool { return v.nonce == 0 && v.bal.Sign() == 0 && len(v.code) == 0 }

func (v acctV) String(i int) string {
	if !v.exists {
		return fmt.Sprintf("%d:-", i)
	}
	su := "s"
	if v.suicided {
		su = "S"
	}
	return fmt.Sprintf("%d:%d,%s,%s,%s,%s,%s,%s", i, v.nonce, v.bal.String(), hx.Hex(v.code), su, v.st[0].String(), v.st[1].String(), v.st[2].String())
}

// dumpAccts renders the getters' view of the tracked accounts; it also checks that the getters are mutually consistent.
func dumpAccts(s *state.StateDB, bad *string) string {
	parts := make([]string, 0, nAddr)
	for i := 1; i <= nAddr; i++ {
		v := readAcct(s, i)
		if !v.exists {
			if v.nonce != 0 || v.bal.Sign() != 0 || len(v.code) != 0 || v.suicided || v.st[0].Sign() != 0 || v.st[1].Sign() != 0 || v.st[2].Sign() != 0 || !s.Empty(addr(i)) {
				*bad = fmt.Sprintf("getters of non-existent account %d report non-zero values", i)
			}
		} else if s.Empty(addr(i)) != v.isEmpty() {
			*bad = fmt.Sprintf("Empty(%d)=%v but nonce/balance/code say %v", i, s.Empty(addr(i)), v.isEmpty())
		}
		parts = append(parts, v.String(i))
	}
	return strings.Join(parts, ";")
}

func dumpAux(s *state.StateDB, bad *string) string {
	logs := s.Logs()
	sort.Slice(logs, func(i, j int) bool { return logs[i].Index < logs[j].Index })
	ls := make([]string, 0, len(logs))
	perTx := map[common.Hash][]string{}
	for _, l := range logs {
		th := -1
		for k := 0; k < nTxh; k++ {
			if l.TxHash == txh(k) {
				th = k
			}
		}
		tag := 0
		if len(l.Data) > 0 {
			tag = int(l.Data[0])
		}
		r := fmt.Sprintf("%d.%d.%d", th, l.Index, tag)
		ls = append(ls, r)
		perTx[l.TxHash] = append(perTx[l.TxHash], r)
	}
	for k := 0; k < nTxh; k++ { // GetLogs(txhash) must be the index-ordered sublist
		got := []string{}
		for _, l := range s.GetLogs(txh(k)) {
			tag := 0
			if len(l.Data) > 0 {
				tag = int(l.Data[0])
			}
			got = append(got, fmt.Sprintf("%d.%d.%d", k, l.Index, tag))
		}
		if strings.Join(got, ",") != strings.Join(perTx[txh(k)], ",") {
			*bad = fmt.Sprintf("GetLogs(tx %d) = %v but Logs() has %v", k, got, perTx[txh(k)])
		}
	}
	pre := s.Preimages()
	ps := make([]string, nHash)
	for k := 0; k < nHash; k++ {
		if p, ok := pre[hsh(k)]; ok && len(p) > 0 {
			ps[k] = strconv.Itoa(int(p[0]))
		} else if ok {
			ps[k] = "e"
		} else {
			ps[k] = "-"
		}
	}
	return fmt.Sprintf("R%d;L%s;P%s", s.GetRefund(), strings.Join(ls, ","), strings.Join(ps, ","))
}

// dumpInternal renders the write-back cache bookkeeping the model mirrors: the dirty set and, per tracked address,
// whether the cached object has lost its onDirty callback (u) and whether it is a deleted tombstone (x).
func dumpInternal(s *state.StateDB) string {
	ds := []string{}
	for _, a := range s.VerifDirty() {
		ds = append(ds, strconv.Itoa(int(a[common.AddressLength-1])))
	}
	fl := ""
	for i := 1; i <= nAddr; i++ {
		present, deleted, _, _, armed := s.VerifObj(addr(i))
		if present && !armed {
			fl += "u"
		} else {
			fl += "a"
		}
		if present && deleted {
			fl += "x"
		} else {
			fl += "-"
		}
		if present { // the read cache: getStateObject stores every object it loads (Aqv.Model.StateCache.loadObj)
			fl += "p"
		} else {
			fl += "n"
		}
	}
	jl, rl := s.VerifJournalLen()
	return fmt.Sprintf("D%s;F%s;J%d.%d", strings.Join(ds, "."), fl, jl, rl)
}

func dumpView(s *state.StateDB, bad *string) string { return dumpAccts(s, bad) + ";" + dumpAux(s, bad) }

// specRoot: the state root the specification defines for the content the getters report — built with a plain trie.Trie,
// keccak(address)/keccak(slot) keys and RLP leaves, without any StateDB code.
func specRoot(s *state.StateDB) (root common.Hash, ok bool) {
	t, _ := trie.New(common.Hash{}, trie.NewDatabase(aquadb.NewMemDatabase()))
	for i := 1; i <= nAddr; i++ {
		v := readAcct(s, i)
		if !v.exists {
			continue
		}
		if v.bal.Sign() < 0 {
			return common.Hash{}, false
		}
		st, _ := trie.New(common.Hash{}, trie.NewDatabase(aquadb.NewMemDatabase()))
		for k := 0; k < nSlot; k++ {
			if v.st[k].Sign() != 0 {
				enc, _ := rlp.EncodeToBytes(v.st[k].Bytes())
				st.Update(crypto.Keccak256(slot(k).Bytes()), enc)
			}
		}
		acc := state.Account{Nonce: v.nonce, Balance: v.bal, Root: st.Hash(), CodeHash: crypto.Keccak256(v.code)}
		enc, err := rlp.EncodeToBytes(acc)
		if err != nil {
			return common.Hash{}, false
		}
		a := addr(i)
		t.Update(crypto.Keccak256(a[:]), enc)
	}
	return t.Hash(), true
}

// leafDiffers: does the account trie leaf of address i disagree with what the getters report for i?
func leafDiffers(s *state.StateDB, i int) (differs bool, leafEmptyAcct bool) {
	v := readAcct(s, i)
	enc := s.VerifLeaf(addr(i))
	if len(enc) == 0 {
		return v.exists, false
	}
	var acc state.Account
	if err := rlp.DecodeBytes(enc, &acc); err != nil {
		return true, false
	}
	leafEmptyAcct = acc.Nonce == 0 && acc.Balance.Sign() == 0 && bytes.Equal(acc.CodeHash, crypto.Keccak256(nil))
	if !v.exists {
		return true, leafEmptyAcct
	}
	st, _ := trie.New(common.Hash{}, trie.NewDatabase(aquadb.NewMemDatabase()))
	for k := 0; k < nSlot; k++ {
		if v.st[k].Sign() != 0 {
			e, _ := rlp.EncodeToBytes(v.st[k].Bytes())
			st.Update(crypto.Keccak256(slot(k).Bytes()), e)
		}
	}
	same := acc.Nonce == v.nonce && acc.Balance.Cmp(v.bal) == 0 && bytes.Equal(acc.CodeHash, crypto.Keccak256(v.code)) && acc.Root == st.Hash()
	return !same, leafEmptyAcct
}

// ---------------------------------------------------------------------------------------------------------------------
// executing one state operation on a StateDB (used by the run itself and by the erased-history replays)

func applyOp(s *state.StateDB, f []string) string {
	switch f[0] {
	case "ca":
		s.CreateAccount(addr(atoi(f[1])))
	case "ab":
		s.AddBalance(addr(atoi(f[1])), bigOf(f[2]))
	case "sb":
		s.SubBalance(addr(atoi(f[1])), bigOf(f[2]))
	case "bl":
		s.SetBalance(addr(atoi(f[1])), bigOf(f[2]))
	case "no":
		n, err := strconv.ParseUint(f[2], 10, 64)
		if err != nil {
			panic(err)
		}
		s.SetNonce(addr(atoi(f[1])), n)
	case "co":
		var code []byte
		if f[2] != "-" {
			code = common.Hex2Bytes(f[2])
		}
		s.SetCode(addr(atoi(f[1])), code)
	case "st":
		s.SetState(addr(atoi(f[1])), slot(atoi(f[2])), common.BigToHash(bigOf(f[3])))
	case "sd":
		if s.Suicide(addr(atoi(f[1]))) {
			return "1"
		}
		return "0"
	case "rf":
		g, err := strconv.ParseUint(f[1], 10, 64)
		if err != nil {
			panic(err)
		}
		s.AddRefund(g)
	case "lg":
		s.AddLog(&types.Log{Address: addr(1), Data: []byte{byte(atoi(f[1]))}})
	case "pi":
		s.AddPreimage(hsh(atoi(f[1])), []byte{byte(atoi(f[2]))})
	case "pp":
		s.Prepare(txh(atoi(f[1])), common.Hash{}, 0)
	case "sn":
		return strconv.Itoa(s.Snapshot())
	case "rv":
		s.RevertToSnapshot(atoi(f[1]))
	case "fi":
		s.Finalise(f[1] == "1")
	case "rt":
		return "H" + s.IntermediateRoot(f[1] == "1").Hex()
	case "cm":
		r, err := s.Commit(f[1] == "1")
		if err != nil {
			return "err"
		}
		return "H" + r.Hex()
	default:
		panic("unknown op " + f[0])
	}
	return ""
}

// isCheckpoint: actions after which a quiet history reads the getters.
func isCheckpoint(op string) bool {
	switch op {
	case "fi", "rt", "cm", "dm":
		return true
	}
	return false
}

func isWrite(op string) bool {
	switch op {
	case "ca", "ab", "sb", "bl", "no", "co", "st", "sd":
		return true
	}
	return false
}

// ---------------------------------------------------------------------------------------------------------------------
// one StateDB under test with the bookkeeping of the direct judgements

type survOp struct {
	f       []string
	existed bool // the target account existed before the operation
	journ   bool // the operation appended a journal entry other than a touch for an existing account
	aTouch  bool // AddBalance(x,0) on an existing empty account whose object still had its onDirty callback
	touch3  bool // AddBalance(3,0) on the existing empty account 0x03
}

type sut struct {
	s        *state.StateDB
	base     common.Hash
	surv     []survOp       // surviving operations since base (reverted segments erased, no snapshots)
	snapAt   map[int]int    // live snapshot id -> len(surv) when taken
	snapView map[int]string // live snapshot id -> view when taken
	lastView string
	stale    bool         // used after Commit without Reset/New: outside the API contract, model correspondence only
	cmPend   bool         // the last operation was a Commit (any further operation makes the StateDB stale)
	noAux    bool         // a Copy taken after Commit keeps logs/preimages a reopened state does not have: J6 compares accounts only
	revWr    map[int]bool // accounts with a reverted journalled write (existed before it) since base
	revT3    bool         // a touch of the existing empty account 0x03 was reverted
	disarmed map[int]bool // accounts with a reverted touch that found the callback armed
	mixed    map[int]bool // non-suicided tombstones that were dirty when Finalise/Commit(false) ran
	baseIdx  int  // index of the commit this instance was opened at (-1: none)
	pristine bool // opened at a committed root and no mutator has been called on it since (reverted or not)
	lostCp   map[int]bool // (a Copy) accounts whose cached object in the original was disarmed and outside the dirty set (F2): dropped by Copy
}

func newSut(s *state.StateDB, base common.Hash) *sut {
	return &sut{baseIdx: -1, s: s, base: base, snapAt: map[int]int{}, snapView: map[int]string{}, revWr: map[int]bool{}, disarmed: map[int]bool{}, mixed: map[int]bool{}, lostCp: map[int]bool{}}
}

func cloneMap(m map[int]bool) map[int]bool {
	o := map[int]bool{}
	for k, v := range m {
		o[k] = v
	}
	return o
}

type commitRec struct {
	root  common.Hash
	accts string
	stale bool // committed by a StateDB that was used after an earlier Commit without Reset: no read-back claim
}

type hist struct {
	run       *hx.Run
	db        state.Database
	cur       *sut
	alts      []*sut // the other live StateDBs over the same state.Database (copies and instances opened at a committed root), at most 2
	committed []commitRec
	classes   map[common.Hash]int
	acts      []string // executed actions (the case input)
	obs       []string // observations (the case output)
	live      []int    // generator's view of live snapshot ids of cur (ascending)
	liveAlts  [][]int
	done      bool // a panic or a judgement ended the history
	kind      string
	nFind     int
	dropLast  bool
	quiet     bool // "cold cache" history: the getters are only read at Finalise/IntermediateRoot/Commit/reopen/Reset/dm, so that
	// code paths depending on values that were never read through this StateDB (storage cache, code cache) are exercised
	mayPanic  bool // malformed histories (dead revert ids, overdrafts, negative amounts) are expected to panic
}

func newHist(run *hx.Run, kind string) *hist {
	db := state.NewDatabase(aquadb.NewMemDatabase())
	s, err := state.New(common.Hash{}, db)
	if err != nil {
		panic(err)
	}
	return &hist{run: run, db: db, cur: newSut(s, common.Hash{}), classes: map[common.Hash]int{}, kind: kind}
}

func (h *hist) pushAlt(o *sut) {
	if len(h.alts) >= 2 {
		h.alts, h.liveAlts = h.alts[1:], h.liveAlts[1:]
	}
	h.alts = append(h.alts, o)
	h.liveAlts = append(h.liveAlts, nil)
}

func (h *hist) class(r common.Hash) string {
	c, ok := h.classes[r]
	if !ok {
		c = len(h.classes)
		h.classes[r] = c
	}
	return "r" + strconv.Itoa(c)
}

func (h *hist) input() string { return "h " + strings.Join(h.acts, " ") }

// hx keeps at most 200 violation records; the four known patterns would exhaust that in the thorough tier and hide a new
// one, so each known signature is recorded in full only a few times and counted afterwards.
var knownSeen = map[string]int{}

func (h *hist) violate(kind, sig, detail string) {
	if sig == sigF1 || sig == sigF2 || sig == sigF3 || sig == sigF3c || sig == sigF4 {
		knownSeen[sig]++
		if knownSeen[sig] > 25 {
			h.dropLast = h.dropLast || sig == sigF3 || sig == sigF3c
			h.run.Count("known-pattern-not-recorded:" + kind)
			h.nFind++
			h.done = true
			return
		}
	}
	h.run.Violate(kind, sig, h.input(), detail)
	h.dropLast = h.dropLast || sig == sigF3 || sig == sigF3c
	h.nFind++
	h.done = true
}

func diffAddrs(a, b string) []int {
	pa, pb := strings.Split(a, ";"), strings.Split(b, ";")
	out := []int{}
	for i := 0; i < nAddr && i < len(pa) && i < len(pb); i++ {
		if pa[i] != pb[i] {
			out = append(out, i+1)
		}
	}
	return out
}

func auxOf(v string) string { // the refund/logs/preimages part of a view
	p := strings.Split(v, ";")
	return strings.Join(p[nAddr:], ";")
}
func acctsOf(v string) string {
	p := strings.Split(v, ";")
	return strings.Join(p[:nAddr], ";")
}
func acctField(v string, i int) string { return strings.Split(v, ";")[i-1] }

// disarmedFamily: every listed account is a live cached object without callback and outside the dirty set, and the
// harness saw a reverted touch that found its callback armed.
func (h *hist) disarmedFamily(u *sut, xs []int) bool {
	dirty := map[int]bool{}
	for _, a := range u.s.VerifDirty() {
		dirty[int(a[common.AddressLength-1])] = true
	}
	for _, x := range xs {
		present, deleted, _, _, armed := u.s.VerifObj(addr(x))
		if !(present && !deleted && !armed && !dirty[x] && u.disarmed[x]) {
			return false
		}
	}
	return true
}

// classifyLeaf: explain a disagreement between the account trie and the getters (J2/J3/J4/J6 failures).
func (h *hist) classifyLeaf(u *sut) (kind, sig string) {
	m := []int{}
	nF2, nF3 := 0, 0
	dirty := map[int]bool{}
	for _, a := range u.s.VerifDirty() {
		dirty[int(a[common.AddressLength-1])] = true
	}
	for i := 1; i <= nAddr; i++ {
		d, leafEmpty := leafDiffers(u.s, i)
		if !d {
			continue
		}
		present, deleted, suicided, _, armed := u.s.VerifObj(addr(i))
		if present && !deleted && dirty[i] {
			continue // a live dirty object legitimately differs from the trie until the next Finalise
		}
		m = append(m, i)
		switch {
		case present && !deleted && !armed && !dirty[i] && u.disarmed[i]:
			nF2++ // F2: live cached object without callback, outside the dirty set, after a reverted armed touch
		case present && deleted && !suicided && leafEmpty && u.mixed[i] && !u.s.Exist(addr(i)):
			nF3++ // F3: tombstone of an account deleted as empty, re-inserted by Finalise/Commit(false)
		case u.mixed[i]:
			nF3++ // F3 aftermath: the re-inserted account was resurrected by a reverted re-creation (tombstone dropped); its leaf may
			// carry a storage root whose nodes were never written, so the getters read empty storage
		default:
			return "", ""
		}
	}
	switch {
	case len(m) == 0:
		return "", ""
	case nF3 > 0:
		return kindF3, sigF3
	default:
		return kindF2, sigF2
	}
}

// do executes one action on the history; returns false when the history has ended.
func (h *hist) do(act string) bool {
	if h.done {
		return false
	}
	f := strings.Split(act, ":")
	if f[0] == "q" {
		h.quiet = true
	}
	h.run.Count("act:" + f[0])
	h.run.Current(h.input() + " " + act)
	u := h.cur
	bad := ""
	ret := ""
	extra := ""
	panicked := false
	var rootHash common.Hash
	isRoot := false

	// bookkeeping that must look at the state before the operation
	var so survOp
	so.f = f
	if isWrite(f[0]) {
		x := atoi(f[1])
		so.existed = u.s.Exist(addr(x))
		present, _, _, _, armed := u.s.VerifObj(addr(x))
		switch f[0] {
		case "ab":
			if bigOf(f[2]).Sign() == 0 {
				isDirty := false
				for _, a := range u.s.VerifDirty() {
					if a == addr(x) {
						isDirty = true
					}
				}
				_ = isDirty // a Copy re-arms the callback of dirty objects, so an armed object may already be dirty
				so.aTouch = so.existed && u.s.Empty(addr(x)) && (!present || armed) && x != 3
				so.touch3 = so.existed && u.s.Empty(addr(x)) && x == 3
			} else {
				so.journ = so.existed
			}
		case "sb":
			so.journ = so.existed && bigOf(f[2]).Sign() != 0
		default:
			so.journ = so.existed
		}
	}
	noteMixed(u, f)

	out := hx.Safe(func() string {
		switch f[0] {
		case "cp":
			c := u.s.Copy()
			o := newSut(c, u.base)
			o.surv = append(append([]survOp{}, u.surv...), survOp{f: []string{"pp", "0"}})
			o.stale = u.stale
			o.noAux = u.noAux || u.cmPend
			o.revWr, o.disarmed, o.mixed, o.revT3 = cloneMap(u.revWr), cloneMap(u.disarmed), cloneMap(u.mixed), u.revT3
			o.lostCp = cloneMap(u.lostCp)
			for x := 1; x <= nAddr; x++ { // flags only, no getter: what Copy drops because of F2
				if h.disarmedFamily(u, []int{x}) {
					o.lostCp[x] = true
				}
			}
			h.pushAlt(o)
			return "ok"
		case "on": // open ANOTHER instance at committed root k through the same state.Database; the current one stays current
			k := atoi(f[1])
			if k >= len(h.committed) {
				panic("no such commit")
			}
			s, err := state.New(h.committed[k].root, h.db)
			if err != nil {
				return "err"
			}
			o := newSut(s, h.committed[k].root)
			o.baseIdx, o.pristine = k, !h.committed[k].stale
			h.pushAlt(o)
			return "ok"
		case "sw": // rotate: the current instance goes to the back, the oldest alternative becomes current
			if len(h.alts) == 0 {
				return "ok"
			}
			front, fl := h.alts[0], h.liveAlts[0]
			h.alts = append(h.alts[1:], h.cur)
			h.liveAlts = append(h.liveAlts[1:], h.live)
			h.cur, h.live = front, fl
			u = h.cur
			return "ok"
		case "ro", "rs":
			k := atoi(f[1])
			if k >= len(h.committed) {
				panic("no such commit")
			}
			if f[0] == "ro" {
				s, err := state.New(h.committed[k].root, h.db)
				if err != nil {
					return "err"
				}
				n := newSut(s, h.committed[k].root)
				n.baseIdx, n.pristine = k, !h.committed[k].stale
				h.cur = n
			} else {
				if err := u.s.Reset(h.committed[k].root); err != nil {
					return "err"
				}
				n := newSut(u.s, h.committed[k].root)
				n.baseIdx, n.pristine = k, !h.committed[k].stale
				h.cur = n
			}
			u = h.cur
			h.live = nil
			return "ok"
		case "dm", "q":
			return "ok"
		case "ne":
			s2, _ := state.New(common.Hash{}, state.NewDatabase(aquadb.NewMemDatabase()))
			for i := 1; i <= nAddr; i++ {
				v := readAcct(u.s, i)
				if !v.exists {
					continue
				}
				a := addr(i)
				s2.AddBalance(a, new(big.Int))
				if v.bal.Sign() != 0 {
					s2.SetBalance(a, v.bal)
				}
				if v.nonce != 0 {
					s2.SetNonce(a, v.nonce)
				}
				if len(v.code) != 0 {
					s2.SetCode(a, v.code)
				}
				for k := 0; k < nSlot; k++ {
					if v.st[k].Sign() != 0 {
						s2.SetState(a, slot(k), common.BigToHash(v.st[k]))
					}
				}
			}
			r := s2.IntermediateRoot(false)
			if sr, ok := specRoot(u.s); ok && sr != r {
				bad = fmt.Sprintf("net-effect replay on a fresh StateDB gives root %x, the spec root of the same content is %x", r, sr)
			}
			return "H" + r.Hex()
		default:
			return applyOp(u.s, f)
		}
	})
	if strings.HasPrefix(out, "panic") {
		panicked = true
		ret = "panic"
	} else if strings.HasPrefix(out, "H") {
		rootHash = common.HexToHash(out[1:])
		ret = h.class(rootHash) + ":" + common.Bytes2Hex(rootHash[:]) // content class and the real 32-byte root
		isRoot = f[0] == "rt" || f[0] == "cm"
	} else {
		ret = out
	}
	h.acts = append(h.acts, act)
	if f[0] == "cm" && out == "err" {
		// Commit returned an error (and no root): a storage trie could not be opened. The only known way there is F3: the
		// re-inserted tombstone's leaf carries a storage root that Finalise only hashed; once a reverted re-creation drops the
		// tombstone the account is re-read from that leaf and its storage trie is unresolvable. Pinned by: every cached object
		// with a memoized database error is such a re-inserted account. The model has no node database: the observation is
		// not part of the correspondence case.
		h.obs = append(h.obs, "err")
		h.run.Count("outcome:commit-error")
		bad, anyErr := false, false
		for x := 1; x <= nAddr; x++ {
			if u.s.VerifObjErr(addr(x)) {
				anyErr = true
				if !u.mixed[x] {
					bad = true
				}
			}
		}
		if anyErr && !bad {
			h.dropLast = true
			h.violate(kindF3, sigF3c, fmt.Sprintf("%s returned an error: the storage trie of an account re-inserted by Finalise(false) cannot be opened (%v)", act, u.s.Error()))
		} else {
			h.violate("commit-error", "commit-error", fmt.Sprintf("%s returned an error on a history without database faults: %v", act, u.s.Error()))
		}
		h.done = true
		return false
	}
	if panicked {
		h.obs = append(h.obs, "panic")
		h.run.Count("outcome:panic:" + f[0])
		if !h.mayPanic {
			// a well-formed history (live revert ids, no overdraft) must never panic
			h.violate("panic", "panic:"+f[0], "the real code panicked on a well-formed history: "+out)
		}
		h.done = true
		return false
	}
	if h.quiet && !isCheckpoint(f[0]) {
		// no getter is called: only the return value is observed; bookkeeping of the erased history continues
		h.obs = append(h.obs, ret+"/~")
		switch f[0] {
		case "sn":
			id := atoi(ret)
			u.snapAt[id] = len(u.surv)
			h.live = append(h.live, id)
		case "rv":
			id := atoi(f[1])
			pos := u.snapAt[id]
			for _, o := range u.surv[pos:] {
				if isWrite(o.f[0]) {
					x := atoi(o.f[1])
					if o.journ {
						u.revWr[x] = true
					}
					if o.aTouch {
						u.disarmed[x] = true
					}
					if o.touch3 {
						u.revT3 = true
					}
				}
			}
			kept := []survOp{}
			for _, o := range u.surv[pos:] {
				if o.f[0] == "pp" {
					kept = append(kept, o)
				}
			}
			u.surv = append(u.surv[:pos:pos], kept...)
			for k := range u.snapAt {
				if k >= id {
					delete(u.snapAt, k)
				}
			}
			nl := h.live[:0]
			for _, k := range h.live {
				if k < id {
					nl = append(nl, k)
				}
			}
			h.live = nl
		}
		if isWrite(f[0]) || f[0] == "rf" || f[0] == "lg" || f[0] == "pi" || f[0] == "pp" {
			if u.cmPend {
				u.stale = true
			}
			u.cmPend = false
			u.surv = append(u.surv, so)
			if isWrite(f[0]) {
				u.pristine = false
			}
		}
		if f[0] == "cp" || f[0] == "on" {
			h.alts[len(h.alts)-1].lastView = ""
		}
		u.lastView = ""
		return true
	}
	view := dumpView(u.s, &bad)
	ob := ret + "/" + view + ";" + dumpInternal(u.s)
	if f[0] == "on" {
		nw := h.alts[len(h.alts)-1]
		cv := dumpView(nw.s, &bad)
		extra = "/" + cv + ";" + dumpInternal(nw.s)
		nw.lastView = cv
		if nw.pristine && acctsOf(cv) != h.committed[nw.baseIdx].accts {
			h.obs = append(h.obs, ob+extra)
			h.violate("reopen-differs", "reopen-differs", fmt.Sprintf("second instance opened at commit %d reads %s, committed view was %s", nw.baseIdx, acctsOf(cv), h.committed[nw.baseIdx].accts))
			return false
		}
	}
	if f[0] == "cp" {
		nw := h.alts[len(h.alts)-1]
		cv := dumpView(nw.s, &bad)
		extra = "/" + cv + ";" + dumpInternal(nw.s)
		nw.lastView = cv
		if cv != view && !u.stale {
			// a cached object that Copy drops is re-read from a trie leaf whose storage trie may only have been hashed, never
			// written to the node database (the model abstracts tries to maps): this observation is not part of the case
			h.dropLast = true
			if k, s := h.classifyLeaf(u); k != "" {
				h.obs = append(h.obs, ob+extra)
				h.violate(k, s, "Copy() does not read back the original: "+fmt.Sprint(diffAddrs(view, cv)))
				return false
			}
			if d := diffAddrs(view, cv); len(d) > 0 && auxOf(view) == auxOf(cv) && h.disarmedFamily(u, d) {
				h.obs = append(h.obs, ob+extra)
				h.violate(kindF2, sigF2, fmt.Sprintf("Copy() drops the cached modifications of accounts %v (no callback, not dirty after a reverted touch)", d))
				return false
			}
			h.dropLast = false
			h.obs = append(h.obs, ob+extra)
			h.violate("copy-differs", "copy-differs", fmt.Sprintf("Copy() view %s differs from original %s", cv, view))
			return false
		}
	}
	h.obs = append(h.obs, ob+extra)
	if bad != "" {
		h.violate("getter-inconsistent", "getter-inconsistent", bad)
		return false
	}

	// ---- direct judgements ----
	switch f[0] {
	case "sn":
		id := atoi(ret)
		u.snapAt[id] = len(u.surv)
		u.snapView[id] = view
		h.live = append(h.live, id)
	case "rv":
		id := atoi(f[1])
		want := u.snapView[id]
		pos := u.snapAt[id]
		for _, o := range u.surv[pos:] {
			if isWrite(o.f[0]) {
				x := atoi(o.f[1])
				if o.journ {
					u.revWr[x] = true
				}
				if o.aTouch {
					u.disarmed[x] = true
				}
				if o.touch3 {
					u.revT3 = true
				}
			}
		}
		kept := []survOp{}
		for _, o := range u.surv[pos:] {
			if o.f[0] == "pp" { // Prepare is not journalled (and is not meant to be)
				kept = append(kept, o)
			}
		}
		u.surv = append(u.surv[:pos:pos], kept...)
		for k := range u.snapAt {
			if k >= id {
				delete(u.snapAt, k)
				delete(u.snapView, k)
			}
		}
		nl := h.live[:0]
		for _, k := range h.live {
			if k < id {
				nl = append(nl, k)
			}
		}
		h.live = nl
		h.run.Count("judged:J1-revert")
		if view != want && !u.stale {
			// F3: an account deleted as empty by Finalise(true) and re-inserted into the trie by Finalise(false) comes back
			d := diffAddrs(want, view)
			isF3 := len(d) > 0 && auxOf(want) == auxOf(view)
			for _, x := range d {
				v := readAcct(u.s, x)
				if !(acctField(want, x) == fmt.Sprintf("%d:-", x) && v.exists && v.isEmpty() && !v.suicided && u.mixed[x]) {
					isF3 = false
				}
			}
			if isF3 {
				h.violate(kindF3, sigF3, fmt.Sprintf("after revert to %d accounts %v exist although they did not when the snapshot was taken", id, d))
			} else {
				h.violate("revert-not-exact", "revert-not-exact", fmt.Sprintf("after revert to %d: %s; at snapshot: %s", id, view, want))
			}
			return false
		}
	case "ro", "rs":
		k := atoi(f[1])
		h.run.Count("judged:J3-reopen")
		if acctsOf(view) != h.committed[k].accts && !h.committed[k].stale {
			d := diffAddrs(h.committed[k].accts, view)
			// the committing StateDB is gone; classify by shape only when the bookkeeping of that commit said so
			h.violate("reopen-differs", "reopen-differs", fmt.Sprintf("state reopened at commit %d reads %s, committed view was %s (accounts %v)", k, acctsOf(view), h.committed[k].accts, d))
			return false
		}
	case "sw":
		h.run.Count("judged:J4-copy-independent")
		if u.lastView != "" && view != u.lastView {
			h.violate("copy-not-independent", "copy-not-independent", fmt.Sprintf("state changed while the other copy was used: %s -> %s", u.lastView, view))
			return false
		}
	case "cp":
		h.run.Count("judged:J4-copy")
	case "fi", "rt", "cm":
		u.snapAt, u.snapView = map[int]int{}, map[int]string{}
		h.live = nil
	}
	if isWrite(f[0]) || f[0] == "rf" || f[0] == "lg" || f[0] == "pi" || f[0] == "pp" || f[0] == "fi" || f[0] == "rt" || f[0] == "cm" {
		if u.cmPend && f[0] != "cm" {
			u.stale = true
		}
		u.cmPend = false
		u.surv = append(u.surv, so)
		if isWrite(f[0]) {
			u.pristine = false
		}
	}
	// J7: an instance opened at a committed root on which no mutator was ever called still reads exactly that content and,
	// when asked, returns exactly that root — whatever other instances over the same state.Database did meanwhile
	if u.pristine && u.baseIdx >= 0 && u.baseIdx < len(h.committed) {
		h.run.Count("judged:J7-untouched-instance")
		c := h.committed[u.baseIdx]
		if acctsOf(view) != c.accts {
			h.violate("reopened-instance-changed", "reopened-instance-changed:view", fmt.Sprintf("%s: an instance opened at commit %d and never modified reads %s, the committed content is %s", act, u.baseIdx, acctsOf(view), c.accts))
			return false
		}
		if isRoot && rootHash != c.root {
			h.violate("reopened-instance-changed", "reopened-instance-changed:root", fmt.Sprintf("%s on an instance opened at commit %d and never modified returned %x, the committed root is %x", act, u.baseIdx, rootHash, c.root))
			return false
		}
	}
	if f[0] == "cm" {
		u.pristine = false
	}
	if isRoot && !u.stale {
		h.run.Count("judged:J2-root")
		if sr, ok := specRoot(u.s); ok && sr != rootHash {
			if k, s := h.classifyLeaf(u); k != "" {
				h.violate(k, s, fmt.Sprintf("%s returned %x but the content the getters report has root %x", act, rootHash, sr))
			} else {
				h.violate("root-not-content", "root-not-content", fmt.Sprintf("%s returned %x but the content the getters report (%s) has root %x", act, rootHash, acctsOf(view), sr))
			}
			return false
		}
	}
	if (f[0] == "fi" || f[0] == "rt" || f[0] == "cm") && !u.stale {
		// J6: the erased history on a fresh StateDB at the last committed root
		h.run.Count("judged:J6-erased-history")
		var rv string
		var rr string
		var ru *sut
		res := hx.Safe(func() string {
			s2, err := state.New(u.base, h.db)
			if err != nil {
				return "panic open"
			}
			ru = newSut(s2, u.base)
			last := ""
			for _, o := range u.surv {
				noteMixed(ru, o.f)
				last = applyOp(s2, o.f)
			}
			var b2 string
			rv = dumpView(s2, &b2)
			rr = last
			return "ok"
		})
		if res != "ok" {
			for x := 1; x <= nAddr; x++ { // a negative balance written to a disarmed object never reaches the RLP encoder (F2)
				if u.s.GetBalance(addr(x)).Sign() < 0 && h.disarmedFamily(u, []int{x}) {
					h.violate(kindF2, sigF2, fmt.Sprintf("%s: the erased history panics encoding the negative balance of account %d; the history itself never writes that account", act, x))
					return false
				}
			}
			h.violate("erased-history-differs", "erased-history-panics", "replaying the surviving operations panicked: "+res)
			return false
		}
		if u.noAux {
			rv, view = acctsOf(rv)+";", acctsOf(view)+";"
		}
		if rv != view || (isRoot && rr != out) {
			d := diffAddrs(rv, view)
			if k, s := h.classifyLeaf(u); k != "" {
				h.violate(k, s, fmt.Sprintf("%s: history and erased history differ at accounts %v", act, d))
				return false
			}
			if k, s := h.classifyLeaf(ru); k == kindF3 {
				h.violate(k, s, fmt.Sprintf("%s: the erased history re-inserted a deleted empty account (accounts %v)", act, d))
				return false
			}
			// every differing account must be explained by one known pattern:
			//  F2  a live cached object without callback and outside the dirty set after a reverted touch
			//  F1  a pre-existing empty account deleted by Finalise(true) although only reverted operations wrote it
			//  F4  the same for a reverted touch of 0x03
			okAll := len(d) > 0 && auxOf(rv) == auxOf(view)
			nF1, nF2, nF3, nF4 := 0, 0, 0, 0
			for _, x := range d {
				present, deleted, suicided, _, _ := u.s.VerifObj(addr(x))
				shape := f[1] == "1" && acctField(view, x) == fmt.Sprintf("%d:-", x) && strings.HasPrefix(acctField(rv, x), fmt.Sprintf("%d:0,0,-,s,", x)) && present && deleted && !suicided
				switch {
				case h.disarmedFamily(u, []int{x}) || u.lostCp[x]:
					nF2++
				case u.mixed[x]:
					nF3++ // x was deleted as empty and re-inserted by Finalise(false): from then on its existence depends on whether a
					// reverted re-creation dropped the tombstone (history) — every later difference at x is this defect
				case shape && u.revWr[x]:
					nF1++
				case shape && x == 3 && u.revT3:
					nF4++
				default:
					okAll = false
				}
			}
			switch {
			case okAll && nF3 > 0:
				h.violate(kindF3, sigF3, fmt.Sprintf("%s: accounts %v: an account deleted as empty and re-inserted by Finalise(false) exists again (F3 %d, F2 %d, F1 %d, F4 %d)", act, d, nF3, nF2, nF1, nF4))
			case okAll && nF2 > 0:
				h.violate(kindF2, sigF2, fmt.Sprintf("%s: accounts %v: cached without onDirty callback and outside the dirty set after a reverted touch (F2 %d, F1 %d, F4 %d); history and erased history differ there", act, d, nF2, nF1, nF4))
			case okAll && nF1 > 0:
				h.violate(kindF1, sigF1, fmt.Sprintf("%s deleted accounts %v, which only reverted operations wrote; the same history without the reverted segments keeps them", act, d))
			case okAll:
				h.violate(kindF4, sigF4, fmt.Sprintf("%s deleted the empty account 0x03 after a reverted touch (journal.go skips the undo for this address)", act))
			default:
				h.violate("erased-history-differs", "erased-history-differs", fmt.Sprintf("%s: view %s root %s; erased history: view %s root %s", act, view, out, rv, rr))
			}
			return false
		}
	}
	if f[0] == "cm" {
		h.committed = append(h.committed, commitRec{root: rootHash, accts: acctsOf(view), stale: u.stale})
		u.cmPend = true
		u.base, u.surv = rootHash, nil
		u.noAux = true // Commit keeps logs and preimages, a StateDB opened at the new root has none
	}
	u.lastView = dumpView(u.s, &bad)
	return true
}

// noteMixed records the non-suicided tombstones that are still dirty when Finalise/IntermediateRoot/Commit(false) runs.
func noteMixed(u *sut, f []string) {
	if (f[0] == "fi" || f[0] == "rt" || f[0] == "cm") && f[1] == "0" {
		for _, a := range u.s.VerifDirty() {
			present, deleted, suicided, _, _ := u.s.VerifObj(a)
			if present && deleted && !suicided {
				u.mixed[int(a[common.AddressLength-1])] = true
			}
		}
	}
}

func (h *hist) finish() {
	if h.dropLast && len(h.acts) > 0 {
		// F3 leaves an account in the trie whose storage trie was hashed but never written to the node database; the model
		// abstracts tries to maps and cannot mirror the resulting read errors, so the observation that exposed F3 is not
		// part of the correspondence case (the finding itself is reported by the direct judgement).
		h.acts, h.obs = h.acts[:len(h.acts)-1], h.obs[:len(h.obs)-1]
	}
	h.run.Case(h.input(), strings.Join(h.obs, " "))
	h.run.Count("hist:" + h.kind)
	n := len(h.acts)
	switch {
	case n <= 10:
		h.run.Count("len:<=10")
	case n <= 30:
		h.run.Count("len:11-30")
	case n <= 60:
		h.run.Count("len:31-60")
	default:
		h.run.Count("len:>60")
	}
}

// ---------------------------------------------------------------------------------------------------------------------
// generators

var two64 = new(big.Int).Lsh(big.NewInt(1), 64)
var two255 = new(big.Int).Lsh(big.NewInt(1), 255)
var two256m1 = new(big.Int).Sub(new(big.Int).Lsh(big.NewInt(1), 256), big.NewInt(1))

func pickAmount(r *hx.Rng) *big.Int {
	switch r.Intn(12) {
	case 0, 1:
		return big.NewInt(0)
	case 2:
		return big.NewInt(1)
	case 3:
		return new(big.Int).Sub(two64, big.NewInt(1))
	case 4:
		return new(big.Int).Set(two64)
	case 5:
		return new(big.Int).Set(two255)
	case 6:
		return new(big.Int).Set(two256m1)
	default:
		return big.NewInt(int64(r.Intn(1000)))
	}
}

func pickWord(r *hx.Rng) *big.Int {
	switch r.Intn(8) {
	case 0, 1:
		return big.NewInt(0)
	case 2:
		return big.NewInt(1)
	case 3:
		return new(big.Int).Set(two256m1)
	case 4:
		return new(big.Int).Set(two255)
	default:
		return big.NewInt(int64(1 + r.Intn(255)))
	}
}

func pickNonce(r *hx.Rng) uint64 {
	switch r.Intn(8) {
	case 0, 1:
		return 0
	case 2:
		return 1
	case 3:
		return ^uint64(0)
	default:
		return uint64(r.Intn(100))
	}
}

func pickRefund(r *hx.Rng) uint64 {
	switch r.Intn(8) {
	case 0:
		return 0
	case 1:
		return ^uint64(0)
	case 2:
		return 1 << 63
	default:
		return uint64(r.Intn(50000))
	}
}

var codes = []string{"-", "00", "60ff", "6001600155", "fe"}

type genCfg struct {
	quiet     bool
	malformed bool
	mixed     bool
	d         string // uniform delete-empty flag of the history
	maxActs   int
}

func (h *hist) flag(r *hx.Rng, g genCfg) string {
	if g.mixed && r.Intn(2) == 0 {
		if r.Bool() {
			return "1"
		}
		return "0"
	}
	return g.d
}

// mutator picks one journalled operation that is valid for the current state (mostly).
func (h *hist) mutator(r *hx.Rng, g genCfg) string {
	x := 1 + r.Intn(nAddr)
	s := h.cur.s
	switch r.Intn(20) {
	case 0:
		return fmt.Sprintf("ca:%d", x)
	case 1, 2, 3:
		return fmt.Sprintf("ab:%d:%s", x, pickAmount(r))
	case 4:
		return fmt.Sprintf("ab:%d:0", x)
	case 5, 6:
		bal := s.GetBalance(addr(x))
		amt := big.NewInt(0)
		if bal.Sign() > 0 {
			switch r.Intn(3) {
			case 0:
				amt = new(big.Int).Set(bal)
			case 1:
				amt = big.NewInt(1)
			default:
				amt = new(big.Int).Rsh(bal, 1)
			}
		}
		if g.malformed && r.Intn(4) == 0 {
			amt = new(big.Int).Add(bal, big.NewInt(int64(1+r.Intn(5))))
		}
		return fmt.Sprintf("sb:%d:%s", x, amt)
	case 7:
		v := pickAmount(r)
		if g.malformed && r.Intn(6) == 0 {
			v = big.NewInt(-int64(1 + r.Intn(9)))
		}
		return fmt.Sprintf("bl:%d:%s", x, v)
	case 8, 9:
		return fmt.Sprintf("no:%d:%d", x, pickNonce(r))
	case 10, 11:
		return fmt.Sprintf("co:%d:%s", x, codes[r.Intn(len(codes))])
	case 12, 13, 14:
		return fmt.Sprintf("st:%d:%d:%s", x, r.Intn(nSlot), pickWord(r))
	case 15, 16:
		return fmt.Sprintf("sd:%d", x)
	case 17:
		return fmt.Sprintf("rf:%d", pickRefund(r))
	case 18:
		return fmt.Sprintf("lg:%d", r.Intn(200))
	default:
		return fmt.Sprintf("pi:%d:%d", r.Intn(nHash), 1+r.Intn(200))
	}
}

// prelude commits a populated state (including EMPTY accounts, kept by Commit(false)) and reopens it.
func (h *hist) prelude(r *hx.Rng) {
	for x := 1; x <= nAddr; x++ {
		switch r.Intn(6) {
		case 0, 1:
			h.do(fmt.Sprintf("ab:%d:0", x)) // pre-existing empty account
		case 2:
			h.do(fmt.Sprintf("bl:%d:%d", x, 1+r.Intn(1000)))
		case 3:
			h.do(fmt.Sprintf("no:%d:%d", x, 1+r.Intn(5)))
			h.do(fmt.Sprintf("bl:%d:%d", x, r.Intn(50)))
		case 4:
			h.do(fmt.Sprintf("co:%d:%s", x, codes[1+r.Intn(len(codes)-1)]))
			h.do(fmt.Sprintf("st:%d:%d:%s", x, r.Intn(nSlot), big.NewInt(int64(1+r.Intn(9)))))
			if r.Bool() {
				h.do(fmt.Sprintf("st:%d:%d:%s", x, r.Intn(nSlot), pickWord(r)))
			}
		}
	}
	h.do("cm:0")
	if r.Bool() {
		h.do(fmt.Sprintf("ro:%d", len(h.committed)-1))
	} else {
		h.do(fmt.Sprintf("rs:%d", len(h.committed)-1))
	}
}

func (h *hist) generate(r *hx.Rng, g genCfg) {
	if g.quiet && len(h.acts) == 0 {
		h.do("q")
	}
	defer func() {
		if h.quiet && !h.done {
			h.do("dm")
		}
	}()
	if h.cur.cmPend && !h.done {
		h.do(fmt.Sprintf("ro:%d", len(h.committed)-1))
	}
	if (r.Intn(10) < 7 || g.quiet) && len(h.acts) <= 1 && len(h.committed) == 0 {
		h.prelude(r)
	}
	for len(h.acts) < g.maxActs && !h.done {
		// one "transaction": operations with nested snapshots and reverts, then a finalisation
		if r.Intn(3) == 0 && len(h.live) == 0 {
			h.do(fmt.Sprintf("pp:%d", r.Intn(nTxh)))
		}
		n := 2 + r.Intn(14)
		for i := 0; i < n && !h.done && len(h.acts) < g.maxActs; i++ {
			c := r.Intn(100)
			switch {
			case c < 14 && len(h.live) < 5:
				h.do("sn")
			case c < 26 && len(h.live) > 0:
				h.do(fmt.Sprintf("rv:%d", h.live[r.Intn(len(h.live))]))
			case c < 27 && g.malformed && r.Intn(3) == 0:
				h.do(fmt.Sprintf("rv:%d", r.Intn(12))) // possibly dead id: panic("revision id cannot be reverted")
			case c < 30 && !h.quiet:
				h.do("ne")
			case c < 33:
				h.do("cp")
			case c < 36 && len(h.alts) > 0:
				h.do("sw")
			case c < 39 && len(h.committed) > 0:
				h.do(fmt.Sprintf("on:%d", len(h.committed)-1-r.Intn(1+r.Intn(len(h.committed)))%len(h.committed)))
			default:
				h.do(h.mutator(r, g))
			}
		}
		if h.done {
			break
		}
		switch r.Intn(10) {
		case 0, 1, 2:
			h.do("fi:" + h.flag(r, g))
		case 3, 4, 5, 6:
			h.do("rt:" + h.flag(r, g))
			if r.Intn(3) == 0 && !h.quiet {
				h.do("ne")
			}
		case 7, 8:
			h.do("cm:" + h.flag(r, g))
			if h.done {
				break
			}
			if g.malformed && r.Intn(3) == 0 {
				break // misuse: keep using the StateDB after Commit without Reset
			}
			k := len(h.committed) - 1
			if r.Intn(8) == 0 {
				k = r.Intn(len(h.committed))
			}
			if r.Bool() {
				h.do(fmt.Sprintf("ro:%d", k))
			} else {
				h.do(fmt.Sprintf("rs:%d", k))
			}
		default:
			// no finalisation between two transactions (snapshots stay live)
		}
	}
}

// directed histories: interleavings named in the property record and in DESIGN.md, with random filling.
func directed(r *hx.Rng, i int) []string {
	x := 1 + r.Intn(nAddr)
	y := 1 + (x % nAddr)
	d := "1"
	switch i % 17 {
	case 14: // two instances over ONE state.Database opened at the same committed root before either is finalised
		return []string{fmt.Sprintf("bl:%d:50", x), fmt.Sprintf("st:%d:0:5", x), fmt.Sprintf("ab:%d:0", y), "cm:0", "ro:0", "on:0",
			fmt.Sprintf("bl:%d:70", x), fmt.Sprintf("no:%d:3", y), []string{"rt:1", "fi:1", "cm:1"}[r.Intn(3)], "sw", "rt:1", "dm", "sw", "dm"}
	case 15: // three instances (New, New, Reset) interleaved
		return []string{fmt.Sprintf("bl:%d:50", x), fmt.Sprintf("no:%d:2", y), "cm:1", "ro:0", "on:0", "on:0", fmt.Sprintf("st:%d:0:9", x), "fi:1",
			"sw", "rs:0", fmt.Sprintf("ab:%d:4", y), "sw", "rt:0", "sw", "cm:1", "sw", "rt:1", "sw", "dm", "sw", "dm"}
	case 16: // storage tries: two accounts with identical storage (same storage root), two instances writing different ones
		return []string{fmt.Sprintf("st:%d:0:5", x), fmt.Sprintf("st:%d:1:6", x), fmt.Sprintf("no:%d:1", x), fmt.Sprintf("st:%d:0:5", y), fmt.Sprintf("st:%d:1:6", y),
			fmt.Sprintf("no:%d:1", y), "cm:1", "ro:0", "on:0", fmt.Sprintf("st:%d:0:9", x), "rt:1", "sw", fmt.Sprintf("st:%d:1:0", y), "cp", "rt:1", "sw", "dm", "sw", "dm", "sw", "cm:1"}
	case 12: // cold storage: slots that live only in the committed trie are written and reverted without being read first
		return []string{fmt.Sprintf("no:%d:1", x), fmt.Sprintf("st:%d:0:17", x), fmt.Sprintf("st:%d:2:51", x), "cm:1", []string{"ro:0", "rs:0"}[r.Intn(2)],
			"sn", fmt.Sprintf("st:%d:0:9", x), "sn", fmt.Sprintf("st:%d:2:0", x), fmt.Sprintf("st:%d:1:4", x), "rv:1", "rv:0", "rt:1", "cm:1", "ro:1"}
	case 13: // re-creation of an account with pending writes inside a reverted frame, then further writes
		return []string{fmt.Sprintf("bl:%d:50", x), "cm:1", "ro:0", fmt.Sprintf("no:%d:3", x), fmt.Sprintf("st:%d:1:8", x), "sn", fmt.Sprintf("ca:%d", x),
			fmt.Sprintf("ab:%d:1", x), "rv:0", fmt.Sprintf("bl:%d:70", x), []string{"rt:1", "cp", "cm:1"}[r.Intn(3)]}
	case 0: // F1: reverted write to a pre-existing empty account, then Finalise(true)
		w := []string{fmt.Sprintf("ab:%d:5", x), fmt.Sprintf("no:%d:1", x), fmt.Sprintf("st:%d:1:7", x), fmt.Sprintf("co:%d:60ff", x), fmt.Sprintf("bl:%d:9", x)}[r.Intn(5)]
		return []string{fmt.Sprintf("ab:%d:0", x), "cm:0", "ro:0", "sn", w, "rv:0", []string{"rt:1", "fi:1", "cm:1"}[r.Intn(3)]}
	case 1: // F2: reverted touch, later write is lost
		return []string{fmt.Sprintf("ab:%d:0", x), "cm:0", "ro:0", "sn", fmt.Sprintf("ab:%d:0", x), "rv:0", fmt.Sprintf("ab:%d:5", x), []string{"rt:1", "cm:1", "cp"}[r.Intn(3)]}
	case 2: // F3: Finalise(true) then Finalise(false) on the same StateDB
		return []string{fmt.Sprintf("ab:%d:0", x), "fi:1", []string{"fi:0", "rt:0"}[r.Intn(2)], "sn", fmt.Sprintf("ab:%d:1", x), "rv:0"}
	case 3: // revert across a self-destruct of a freshly re-created account
		return []string{fmt.Sprintf("bl:%d:100", x), fmt.Sprintf("st:%d:0:5", x), "rt:" + d, "sn", fmt.Sprintf("sd:%d", x), fmt.Sprintf("ca:%d", x), fmt.Sprintf("bl:%d:7", x), "sn", fmt.Sprintf("sd:%d", x), "rv:1", "rv:0", "rt:" + d}
	case 4: // suicide, finalise, re-create in the next transaction, revert
		return []string{fmt.Sprintf("bl:%d:100", x), fmt.Sprintf("co:%d:60ff", x), "cm:1", "rs:0", fmt.Sprintf("sd:%d", x), "fi:1", "sn", fmt.Sprintf("ab:%d:3", x), fmt.Sprintf("st:%d:2:9", x), "rv:0", "rt:1", "sn", fmt.Sprintf("ca:%d", x), "rv:1", "cm:1", "ro:1"}
	case 5: // touch of the RIPEMD address is not undone (journal.go special case)
		if r.Bool() { // F4: the reverted touch of 0x03 still deletes it
			return []string{"ab:3:0", "cm:0", "ro:0", "sn", "ab:3:0", "rv:0", "rt:1"}
		}
		return []string{"ab:3:0", "cm:0", "ro:0", "sn", "ab:3:0", "rv:0", "ab:3:4", "rt:1", "sn", "ab:3:0", "rv:1", "cm:1", "ro:1"}
	case 6: // storage set / clear / revert / commit / reopen
		return []string{fmt.Sprintf("no:%d:1", x), fmt.Sprintf("st:%d:0:5", x), fmt.Sprintf("st:%d:1:6", x), "cm:1", "ro:0", "sn", fmt.Sprintf("st:%d:0:0", x), "sn", fmt.Sprintf("st:%d:1:9", x), "rv:1", "rt:1", fmt.Sprintf("st:%d:1:0", x), "cm:1", "ro:1"}
	case 7: // CreateAccount carries the balance over; reverted
		return []string{fmt.Sprintf("bl:%d:50", x), fmt.Sprintf("no:%d:3", x), "rt:1", "sn", fmt.Sprintf("ca:%d", x), fmt.Sprintf("ab:%d:1", x), "rv:0", "rt:1", fmt.Sprintf("ca:%d", x), "cm:1", "ro:0"}
	case 8: // copy independence
		return []string{fmt.Sprintf("bl:%d:50", x), fmt.Sprintf("st:%d:1:3", x), "cp", fmt.Sprintf("ab:%d:1", x), fmt.Sprintf("st:%d:1:4", x), "sw", fmt.Sprintf("sb:%d:10", x), "rt:1", "sw", "rt:1"}
	case 9: // refund wrap-around, logs and preimages across nested reverts
		return []string{"pp:1", "rf:18446744073709551615", "sn", "rf:2", "lg:1", "pi:0:5", "sn", "lg:2", "lg:3", "rv:1", "lg:4", "rv:0", "lg:5", "rt:1"}
	case 10: // sub-balance of zero creates the account; empty account deletion
		return []string{fmt.Sprintf("sb:%d:0", x), fmt.Sprintf("ab:%d:0", y), "rt:0", "rt:1", "cm:1", "ro:0"}
	default: // created and touched in a reverted frame, then really created
		return []string{"sn", fmt.Sprintf("ab:%d:0", x), fmt.Sprintf("ab:%d:9", x), "rv:0", fmt.Sprintf("ab:%d:2", x), "rt:1", "cm:1", "ro:0"}
	}
}

func main() {
	run := hx.Start()
	run.Watch(60*time.Second, 3<<30, func(cur string) string { return "hang" })
	rng := hx.NewRng(run.Seed)

	if run.Replay != "" {
		b, err := os.ReadFile(run.Replay)
		if err != nil {
			panic(err)
		}
		var rep struct {
			Input string `json:"input"`
		}
		if err := json.Unmarshal(b, &rep); err != nil {
			panic(err)
		}
		h := newHist(run, "replay")
		h.mayPanic = true
		for _, a := range strings.Fields(rep.Input)[1:] {
			if !h.do(a) {
				break
			}
		}
		h.finish()
		run.Finish()
		return
	}

	nDirected, nRandom, maxActs := 272, 1800, 60
	if run.Thorough() {
		nDirected, nRandom, maxActs = 2400, 60000, 80
	}
	dr := rng.Fork(1)
	for i := 0; i < nDirected; i++ {
		h := newHist(run, "directed")
		if (i/17)%2 == 1 {
			h.kind = "directed+cold"
			h.do("q")
		}
		for _, a := range directed(dr, i) {
			if !h.do(a) {
				break
			}
		}
		// random continuation of the directed prefix (when it did not end in a finding)
		if !h.done && dr.Bool() {
			h.generate(dr, genCfg{d: "1", maxActs: len(h.acts) + 15, quiet: h.quiet})
		} else if h.quiet && !h.done {
			h.do("dm")
		}
		h.finish()
	}
	gr := rng.Fork(2)
	for i := 0; i < nRandom; i++ {
		g := genCfg{d: "1", maxActs: 10 + gr.Intn(maxActs-9)}
		kind := "uniform-d1"
		switch c := gr.Intn(100); {
		case c < 15:
			g.d, kind = "0", "uniform-d0"
		case c < 25:
			g.mixed, kind = true, "mixed-flags"
		case c < 37:
			g.malformed, kind = true, "malformed"
		}
		if !g.malformed && gr.Intn(100) < 35 {
			g.quiet = true
			kind += "+cold"
		}
		h := newHist(run, kind)
		h.mayPanic = g.malformed
		h.generate(gr, g)
		h.finish()
	}
	run.Finish()
}

package main

// Toy primitives that the Lean model driver (lean/Driver/C17.lean: toyH / toyE / toyKs) computes identically.
// The real rlpxFrameRW.WriteMsg / ReadMsg run over them (its primitive fields are interfaces), so the frame codec is
// compared with the model byte for byte without the model having to implement AES.

import (
	"bytes"
	"io"
)

type toyHash struct {
	a [4]uint64
	n uint64
}

func newToyHash(preload []byte) *toyHash {
	h := &toyHash{}
	h.Reset()
	h.Write(preload)
	return h
}
func (h *toyHash) Reset() {
	const o = 0xcbf29ce484222325
	h.a = [4]uint64{o, o + 1, o + 2, o + 3}
	h.n = 0
}
func (h *toyHash) Write(p []byte) (int, error) {
	for _, b := range p {
		i := h.n % 4
		x := (h.a[i] ^ uint64(b)) * 0x100000001b3
		h.a[i] = x
		h.a[(i+1)%4] ^= x >> 29
		h.n++
	}
	return len(p), nil
}
func (h *toyHash) Sum(in []byte) []byte {
	const g = 0x9E3779B97F4A7C15
	for i := 0; i < 4; i++ {
		v := h.a[i] ^ (h.a[(i+1)%4] * g) ^ h.n
		in = append(in, byte(v>>56), byte(v>>48), byte(v>>40), byte(v>>32), byte(v>>24), byte(v>>16), byte(v>>8), byte(v))
	}
	return in
}
func (h *toyHash) Size() int      { return 32 }
func (h *toyHash) BlockSize() int { return 136 }

type toyBlock struct{}

func (toyBlock) BlockSize() int { return 16 }
func (toyBlock) Encrypt(dst, src []byte) {
	var out [16]byte
	for i := 0; i < 16; i++ {
		out[i] = (src[(i+5)%16] ^ byte(0x3c+11*i)) + byte(7*i+1)
	}
	copy(dst, out[:])
}
func (toyBlock) Decrypt(dst, src []byte) { panic("toyBlock.Decrypt is not used by the frame codec") }

type toyStream struct{ pos uint64 }

func toyKs(n uint64) byte {
	x := n*0x9E3779B97F4A7C15 + 0x1234567
	return byte((x >> 29) ^ (x >> 47))
}
func (s *toyStream) XORKeyStream(dst, src []byte) {
	for i := range src {
		dst[i] = src[i] ^ toyKs(s.pos)
		s.pos++
	}
}

// memConn is an io.ReadWriter: reads come from a fixed byte string (then io.EOF), writes are collected.
type memConn struct {
	r *bytes.Reader
	w bytes.Buffer
}

func newMemConn(in []byte) *memConn            { return &memConn{r: bytes.NewReader(in)} }
func (c *memConn) Read(p []byte) (int, error)  { return c.r.Read(p) }
func (c *memConn) Write(p []byte) (int, error) { return c.w.Write(p) }

// shortReader yields n bytes of a repeating pattern and then EOF without holding them in memory.
type patReader struct {
	n    int
	seed byte
}

func (p *patReader) Read(b []byte) (int, error) {
	if p.n == 0 {
		return 0, io.EOF
	}
	k := len(b)
	if k > p.n {
		k = p.n
	}
	for i := 0; i < k; i++ {
		b[i] = p.seed
		p.seed = p.seed*5 + 1
	}
	p.n -= k
	return k, nil
}

package main

// RLPx frames: two rlpxFrameRW ends with equal secrets over in-memory connections.
//  * toy primitives  -> byte-exact comparison with the Lean model (sessions, tampering, snappy mismatches)
//  * real AES/Keccak -> direct judgement: round trip for sizes 0..max, every tamper/drop position, declared sizes up
//    to 2^24, snappy length bombs, allocation bounds.

import (
	"bytes"
	"encoding/binary"
	"fmt"
	"io"
	"io/ioutil"
	"runtime"
	"strconv"
	"strings"
	"time"

	"github.com/golang/snappy"
	"gitlab.com/aquachain/aquachain/p2p"
	"verifharness/hx"
)

type wmsg struct {
	code    uint64
	size    uint32
	payload []byte
}

func (m wmsg) String() string {
	return strconv.FormatUint(m.code, 10) + ":" + strconv.FormatUint(uint64(m.size), 10) + ":" + hx.Hex(m.payload)
}

type rres struct {
	ok      bool
	cls     string // err | panic when !ok
	code    uint64
	size    uint32
	payload []byte
}

func (r rres) String() string {
	if !r.ok {
		return r.cls
	}
	return "ok:" + strconv.FormatUint(r.code, 10) + ":" + strconv.FormatUint(uint64(r.size), 10) + ":" + hx.Hex(r.payload)
}

// readOne performs one ReadMsg with panic recovery.
func readOne(rw p2p.MsgReader) (res rres) {
	defer func() {
		if e := recover(); e != nil {
			res = rres{cls: "panic"}
		}
	}()
	msg, err := rw.ReadMsg()
	if err != nil {
		return rres{cls: "err"}
	}
	var p []byte
	if br, ok := msg.Payload.(*bytes.Reader); ok { // exact-size copy, so that allocation measurements see the codec only
		p = make([]byte, br.Len())
		_, err = io.ReadFull(br, p)
	} else {
		p, err = ioutil.ReadAll(msg.Payload)
	}
	if err != nil {
		return rres{cls: "err"}
	}
	return rres{ok: true, code: msg.Code, size: msg.Size, payload: p}
}

func writeOne(rw p2p.MsgWriter, m wmsg) (cls string) {
	defer func() {
		if e := recover(); e != nil {
			cls = "panic"
		}
	}()
	if err := rw.WriteMsg(p2p.Msg{Code: m.code, Size: m.size, Payload: bytes.NewReader(m.payload)}); err != nil {
		return "err"
	}
	return "ok"
}

func applyTamper(w []byte, t string) []byte {
	f := strings.Split(t, ":")
	at := func(i int) int { n, _ := strconv.Atoi(f[i]); return n }
	out := append([]byte{}, w...)
	switch f[0] {
	case "flip":
		if at(1) < len(out) {
			out[at(1)] ^= byte(at(2))
		}
	case "drop":
		if at(1) < len(out) {
			out = append(out[:at(1)], out[at(1)+1:]...)
		}
	case "trunc":
		if at(1) < len(out) {
			out = out[:at(1)]
		}
	case "ins":
		i := at(1)
		if i > len(out) {
			i = len(out)
		}
		out = append(out[:i], append([]byte{byte(at(2))}, out[i:]...)...)
	}
	return out
}

type prims struct {
	toy      bool
	preload  []byte
	aes, mac []byte
}

func (p prims) writer(conn io.ReadWriter, sn bool) p2p.MsgReadWriter {
	if p.toy {
		return p2p.VerifFrameRWPrims(conn, &toyStream{}, &toyStream{}, toyBlock{}, newToyHash(p.preload), newToyHash(nil), sn)
	}
	return p2p.VerifFrameRW(conn, p.aes, p.mac, p2p.VerifKeccakMAC(p.preload), p2p.VerifKeccakMAC(nil), sn)
}
func (p prims) reader(conn io.ReadWriter, sn bool) p2p.MsgReadWriter {
	if p.toy {
		return p2p.VerifFrameRWPrims(conn, &toyStream{}, &toyStream{}, toyBlock{}, newToyHash(nil), newToyHash(p.preload), sn)
	}
	return p2p.VerifFrameRW(conn, p.aes, p.mac, p2p.VerifKeccakMAC(nil), p2p.VerifKeccakMAC(p.preload), sn)
}

// writeSession writes msgs until the first failure; returns the wire bytes, the frame boundaries and the failing index (-1).
func writeSession(p prims, sn bool, msgs []wmsg) (wire []byte, bounds []int, werr string) {
	conn := newMemConn(nil)
	w := p.writer(conn, sn)
	werr = "-"
	for i, m := range msgs {
		cls := writeOne(w, m)
		if cls != "ok" {
			if cls == "panic" {
				werr = "panic" + strconv.Itoa(i)
			} else {
				werr = strconv.Itoa(i)
			}
			break
		}
		bounds = append(bounds, conn.w.Len())
	}
	return conn.w.Bytes(), bounds, werr
}

// readSession reads until the first non-ok result.
func readSession(p prims, sn bool, wire []byte) []rres {
	r := p.reader(newMemConn(wire), sn)
	var out []rres
	for {
		res := readOne(r)
		out = append(out, res)
		if !res.ok || len(out) > len(wire)/48+2 {
			return out
		}
	}
}

func b01(b bool) string {
	if b {
		return "1"
	}
	return "0"
}

func joinRes(rs []rres) string {
	xs := make([]string, len(rs))
	for i, r := range rs {
		xs[i] = r.String()
	}
	return strings.Join(xs, ";")
}

func genPayload(rng *hx.Rng, n int) []byte {
	switch rng.Intn(3) {
	case 0:
		return rng.Bytes(n)
	case 1: // compressible
		return bytes.Repeat([]byte{byte(rng.Intn(256))}, n)
	default:
		b := make([]byte, n)
		pat := rng.Bytes(1 + rng.Intn(7))
		for i := range b {
			b[i] = pat[i%len(pat)]
		}
		return b
	}
}

func genCode(rng *hx.Rng) uint64 {
	switch rng.Intn(6) {
	case 0:
		return 0
	case 1:
		return uint64(rng.Pick([]int{1, 2, 3, 16, 17, 32, 127, 128, 255, 256, 65535, 65536}))
	case 2:
		return rng.U64()
	case 3:
		return ^uint64(0) >> uint(rng.Intn(64))
	default:
		return uint64(rng.Intn(40))
	}
}

// toySession runs one session over the toy primitives and records it as a model case.
func toySession(run *hx.Run, snW, snR bool, preload []byte, tam string, msgs []wmsg) (wire []byte, bounds []int, res []rres) {
	p := prims{toy: true, preload: preload}
	wire, bounds, werr := writeSession(p, snW, msgs)
	// oracles for the snappy parameters of the model
	var eo, do []string
	seenE, seenD := map[string]bool{}, map[string]bool{}
	for _, m := range msgs {
		raw := m.payload
		if snW {
			enc := snappy.Encode(nil, m.payload)
			if k := hx.Hex(m.payload); !seenE[k] {
				seenE[k] = true
				eo = append(eo, k+">"+hx.Hex(enc))
			}
			raw = enc
		}
		if snR {
			if k := hx.Hex(raw); !seenD[k] {
				seenD[k] = true
				l, d := "e", "e"
				if n, err := snappy.DecodedLen(raw); err == nil {
					l = strconv.Itoa(n)
					if n <= maxU24 {
						if out, err := snappy.Decode(nil, raw); err == nil {
							d = hx.Hex(out)
						}
					}
				}
				do = append(do, k+">"+l+">"+d)
			}
		}
	}
	ms := make([]string, len(msgs))
	for i, m := range msgs {
		ms[i] = m.String()
	}
	in := "sess " + b01(snW) + " " + b01(snR) + " " + hx.Hex(preload) + " " + tam + " " + joinOrDash(eo, ",") + " " + joinOrDash(do, ",") + " " + joinOrDash(ms, ",")
	run.Current(in)
	res = readSession(p, snR, applyTamper(wire, tam))
	out := "W " + hx.Hex(wire) + " " + werr + " R " + joinRes(res)
	run.Case(in, out)
	return wire, bounds, res
}

// judge checks the direct oracle for a session read back after tampering at byte `pos` (or -1 for none).
// kind: none | flip | drop | trunc | ins.
func judge(run *hx.Run, what string, written []wmsg, bounds []int, kind string, pos int, res []rres, input interface{}) {
	nOK := 0
	for _, r := range res {
		if r.cls == "panic" {
			run.Violate("panic", "rlpxFrameRW.ReadMsg panic ("+what+")", input, "ReadMsg panicked on "+kind+" at "+strconv.Itoa(pos))
			return
		}
		if r.ok {
			nOK++
		}
	}
	if len(res) == 0 || res[len(res)-1].ok {
		run.Violate("no-terminal-error", "rlpxFrameRW read loop ("+what+")", input, "reader did not end with an error on exhausted input")
		return
	}
	for i := 0; i < nOK; i++ {
		if i >= len(written) || res[i].code != written[i].code || !bytes.Equal(res[i].payload, written[i].payload) || int(res[i].size) != len(res[i].payload) {
			run.Violate("altered-delivery", "rlpxFrameRW delivered something that was not written ("+what+")", input,
				fmt.Sprintf("%s at %d: message %d delivered as code=%d size=%d len=%d", kind, pos, i, res[i].code, res[i].size, len(res[i].payload)))
			return
		}
	}
	// frame index containing pos
	fi := len(bounds)
	for i, b := range bounds {
		if pos < b {
			fi = i
			break
		}
	}
	switch kind {
	case "none":
		if nOK != len(bounds) {
			run.Violate("roundtrip", "rlpxFrameRW round trip ("+what+")", input, fmt.Sprintf("%d of %d written messages read back", nOK, len(bounds)))
		}
	case "flip":
		if nOK != fi {
			run.Violate("tamper-accepted", "rlpxFrameRW flipped byte ("+what+")", input,
				fmt.Sprintf("byte %d (frame %d) flipped: %d messages delivered, want exactly %d then an error", pos, fi, nOK, fi))
		}
	case "drop", "trunc", "ins":
		if nOK >= len(bounds) && kind != "ins" || nOK < fi {
			run.Violate("tamper-accepted", "rlpxFrameRW "+kind+" ("+what+")", input,
				fmt.Sprintf("%s at %d (frame %d): %d of %d messages delivered", kind, pos, fi, nOK, len(bounds)))
		}
	}
}

func totalAlloc() uint64 {
	var ms runtime.MemStats
	runtime.ReadMemStats(&ms)
	return ms.TotalAlloc
}

func frameSection(run *hx.Run, rng *hx.Rng) {
	nToy, nToyTamper, nReal := 250, 14, 10
	if run.Thorough() {
		nToy, nToyTamper, nReal = 12000, 400, 200
	}
	tLast := time.Now()
	tick := func(name string) { run.Notes["wall_frame_"+name] = time.Since(tLast).Seconds(); tLast = time.Now() }
	smallSizes := []int{0, 0, 1, 2, 7, 14, 15, 16, 17, 30, 31, 32, 33, 47, 48, 63, 64, 100, 255, 256, 300}

	genMsgs := func(maxN int, sizes []int) []wmsg {
		n := 1 + rng.Intn(maxN)
		ms := make([]wmsg, n)
		for i := range ms {
			p := genPayload(rng, rng.Pick(sizes))
			ms[i] = wmsg{code: genCode(rng), size: uint32(len(p)), payload: p}
		}
		return ms
	}

	// ---- A. toy primitives: plain sessions (both snappy modes, equal and mismatching), compared with the model
	for i := 0; i < nToy; i++ {
		snW, snR := rng.Intn(3) == 0, false
		snR = snW
		if rng.Intn(6) == 0 {
			snR = !snW // authenticated peer that speaks the other compression mode: reader must reject or decode, never crash
		}
		ms := genMsgs(4, smallSizes)
		if rng.Intn(8) == 0 { // declared size differs from the payload length (local API misuse; the model follows the code)
			j := rng.Intn(len(ms))
			ms[j].size = uint32(rng.Pick([]int{0, 1, len(ms[j].payload) + 1, 1 << 24, 1<<24 - 1, 1<<24 - 2, 1<<32 - 1, 1<<32 - 2}))
		}
		if !snW && snR && rng.Bool() { // hand-made snappy streams for the reader: length bombs and garbage
			j := rng.Intn(len(ms))
			var p []byte
			lb := make([]byte, 10)
			l := uint64(rng.Pick([]int{0, 1, 5, 1<<24 - 1, 1 << 24, 1<<24 + 1, 1 << 31, 1<<32 - 1, 1 << 32, 1 << 40}))
			p = append(p, lb[:binary.PutUvarint(lb, l)]...)
			p = append(p, rng.Bytes(rng.Intn(12))...)
			ms[j].payload, ms[j].size = p, uint32(len(p))
		}
		_, bounds, res := toySession(run, snW, snR, rng.Bytes(rng.Intn(40)), "none", ms)
		run.Count("frame:toy:plain")
		if snW == snR {
			ok := 0
			for _, r := range res {
				if r.ok {
					ok++
				}
			}
			if ok != len(bounds) {
				run.Count("frame:toy:not-all-delivered")
			}
		}
	}
	tick("A")
	// ---- B. toy primitives: flip / drop / insert / truncate at every position of a written session
	for i := 0; i < nToyTamper; i++ {
		sn := i%3 == 2
		ms := genMsgs(3, []int{0, 1, 5, 15, 16, 17, 40})
		pre := rng.Bytes(rng.Intn(20))
		wire, _, _ := toySession(run, sn, sn, pre, "none", ms)
		for pos := 0; pos < len(wire); pos++ {
			toySession(run, sn, sn, pre, fmt.Sprintf("flip:%d:%d", pos, 1<<uint((pos+i)%8)), ms)
			toySession(run, sn, sn, pre, fmt.Sprintf("drop:%d", pos), ms)
			toySession(run, sn, sn, pre, fmt.Sprintf("trunc:%d", pos), ms)
			if pos%5 == i%5 {
				toySession(run, sn, sn, pre, fmt.Sprintf("ins:%d:%d", pos, rng.Intn(256)), ms)
			}
			run.Count("frame:toy:tamper-pos")
		}
	}

	tick("B")
	// ---- C. real AES-CTR / Keccak: direct judgement
	for i := 0; i < nReal; i++ {
		p := prims{preload: rng.Bytes(32 + rng.Intn(300)), aes: rng.Bytes(32), mac: rng.Bytes(32)}
		sn := i%2 == 1
		ms := genMsgs(3, []int{0, 1, 15, 16, 17, 33, 100, 200})
		wire, bounds, werr := writeSession(p, sn, ms)
		in := map[string]interface{}{"aes": hx.Hex(p.aes), "mac": hx.Hex(p.mac), "preload": hx.Hex(p.preload), "snappy": sn, "wire": hx.Hex(wire)}
		if werr != "-" {
			run.Violate("roundtrip", "rlpxFrameRW.WriteMsg failed on a small message", in, "write error at message "+werr)
			continue
		}
		run.Current(fmt.Sprintf("real-session %d", i))
		judge(run, "real", ms, bounds, "none", -1, readSession(p, sn, wire), in)
		for pos := 0; pos < len(wire); pos++ {
			for _, kind := range []string{"flip", "drop", "trunc"} {
				t := kind + ":" + strconv.Itoa(pos)
				if kind == "flip" {
					t += ":" + strconv.Itoa(1<<uint((pos+i)%8))
				}
				in["tamper"] = t
				run.Current(fmt.Sprintf("real-session %d %s", i, t))
				judge(run, "real", ms, bounds, kind, pos, readSession(p, sn, applyTamper(wire, t)), in)
				run.Count("frame:real:" + kind)
			}
		}
	}

	tick("C")
	// ---- D. sizes 0 .. max (with and without snappy), real primitives
	bigSizes := []int{0, 1<<16 - 1, 1 << 20, 1<<24 - 2, 1<<24 - 1, 1 << 24}
	if run.Thorough() {
		bigSizes = append(bigSizes, 1, 1<<10, 1<<16, 3<<20+7, 10<<20, 10<<20+1, 15<<20+13, 1<<24-10, 1<<24-3, 1<<24+1)
	}
	for _, sn := range []bool{false, true} {
		for _, n := range bigSizes {
			if !run.Thorough() && (sn && n == 1<<24-2 || !sn && n == 1<<24) {
				continue
			}
			p := prims{preload: rng.Bytes(64), aes: rng.Bytes(32), mac: rng.Bytes(32)}
			pay := genPayload(rng, n)
			if sn && n >= 1<<20 {
				pay = bytes.Repeat([]byte{7}, n) // compressible, so that the compressed frame fits
			}
			m := wmsg{code: 16, size: uint32(n), payload: pay}
			in := fmt.Sprintf("size-sweep snappy=%v size=%d", sn, n)
			run.Current(in)
			wire, bounds, werr := writeSession(p, sn, []wmsg{m})
			// the writer must refuse exactly what does not fit in 24 bits: code byte + payload (or plain size with snappy)
			wantErr := !sn && n+1 > maxU24 || sn && n > maxU24
			if (werr != "-") != wantErr {
				run.Violate("size-limit", "rlpxFrameRW.WriteMsg size limit", in, fmt.Sprintf("write error=%q, expected error=%v", werr, wantErr))
			}
			run.Count(fmt.Sprintf("frame:size:%v:%s", sn, map[bool]string{true: "refused", false: "written"}[werr != "-"]))
			if werr != "-" {
				if len(wire) != 0 {
					run.Violate("size-limit", "rlpxFrameRW.WriteMsg partial write", in, "refused message left bytes on the wire")
				}
				continue
			}
			before := totalAlloc()
			res := readSession(p, sn, wire)
			used := totalAlloc() - before
			judge(run, "size-sweep", []wmsg{m}, bounds, "none", -1, res, in)
			// frame buffer (≤ 2^24+15) or snappy output (≤ 2^24-1), the payload copy made by this harness, and ReadAll of the
			// compressed payload (≤ 4x the frame by doubling)
			limit := 2*uint64(n) + 6*uint64(len(wire)) + 1<<20
			if used > limit {
				run.Violate("over-allocation", "rlpxFrameRW.ReadMsg allocation", in, fmt.Sprintf("allocated %d bytes reading a %d-byte message", used, n))
			}
			// truncated stream with the big declared size: must fail with an error after at most one frame buffer
			if n >= 1<<20 {
				cut := wire[:32+rng.Intn(64)]
				before = totalAlloc()
				res = readSession(p, sn, cut)
				used = totalAlloc() - before
				judge(run, "size-sweep-cut", []wmsg{m}, bounds, "trunc", len(cut), res, in)
				if used > 1<<24+15+1<<20 {
					run.Violate("over-allocation", "rlpxFrameRW.ReadMsg allocation on a truncated frame", in, fmt.Sprintf("allocated %d bytes", used))
				}
				run.Count("frame:size:declared-big-truncated")
			}
		}
	}

	tick("D")
	// ---- E. authenticated frames carrying hostile snappy streams (real primitives, reader has snappy on)
	overAlloc := false
	for _, l := range []uint64{0, 1, 100, 1<<24 - 1, 1 << 24, 1<<24 + 1, 1 << 26, 1 << 28, 1 << 30, 1 << 31, 1<<32 - 1, 1 << 32, 1 << 40, 1<<63 - 1, 1 << 63} {
		for v := 0; v < 3 && !overAlloc; v++ { // stop at the first over-allocation: the larger declarations would exhaust memory
			p := prims{preload: rng.Bytes(64), aes: rng.Bytes(32), mac: rng.Bytes(32)}
			lb := make([]byte, 10)
			pay := append([]byte{}, lb[:binary.PutUvarint(lb, l)]...)
			switch v {
			case 1:
				pay = append(pay, rng.Bytes(20)...)
			case 2: // one literal element of 4 bytes
				pay = append(pay, 0x0c, 1, 2, 3, 4)
			}
			m := wmsg{code: 17, size: uint32(len(pay)), payload: pay}
			in := fmt.Sprintf("snappy-bomb declared=%d variant=%d payload=%s", l, v, hx.Hex(pay))
			run.Current(in)
			wire, bounds, werr := writeSession(p, false, []wmsg{m})
			if werr != "-" {
				continue
			}
			before := totalAlloc()
			res := readSession(p, true, wire)
			used := totalAlloc() - before
			for _, r := range res {
				if r.cls == "panic" {
					run.Violate("panic", "rlpxFrameRW.ReadMsg panic (snappy)", in, "panic on hostile snappy stream")
				}
				if r.ok && (r.size > p2p.VerifMaxUint24 || int(r.size) != len(r.payload)) {
					run.Violate("size-limit", "rlpxFrameRW.ReadMsg snappy size", in, fmt.Sprintf("delivered size=%d len=%d", r.size, len(r.payload)))
				}
			}
			_ = bounds
			want := uint64(1 << 20)
			if l <= uint64(maxU24) {
				want += l
			}
			if used > want {
				overAlloc = true
				run.Violate("over-allocation", "rlpxFrameRW.ReadMsg snappy allocation", in,
					fmt.Sprintf("allocated %d bytes for a %d-byte frame declaring %d decompressed bytes (limit 2^24-1)", used, len(pay), l))
			}
			run.Count("frame:snappy-bomb:" + res[0].cls + map[bool]string{true: "ok", false: ""}[res[0].ok])
		}
	}
	tick("E")

	// ---- F. pipelined sessions (real primitives): the reader collects several Msgs BEFORE consuming any payload, as
	// Peer.readLoop does while a protocol handler is still busy with an earlier message. Every payload must still be
	// exactly what was written when it is finally consumed (a delivered Msg does not change under later reads).
	nPipe := 30
	if run.Thorough() {
		nPipe = 600
	}
	pipeSizes := []int{0, 0, 1, 1, 15, 16, 17, 17, 100, 1024, 1024, 4000, 65534, 65535, 65536, 70000}
	for it := 0; it < nPipe; it++ {
		sn := it%3 == 2
		k := 3 + rng.Intn(4)
		lag := k // how many Msgs are held unconsumed: k = all of them first; otherwise a sliding window
		if it%2 == 1 {
			lag = 2 + rng.Intn(2)
		}
		ms := make([]wmsg, k)
		big := 0
		for i := range ms {
			n := rng.Pick(pipeSizes)
			if n > 4000 {
				if big++; big > 2 {
					n = rng.Pick([]int{0, 1, 16, 17, 1024})
				}
			}
			pay := rng.Bytes(n)
			if it%4 == 0 && i > 0 && len(ms[0].payload) == n { // same size as an earlier frame: silent substitution would go unnoticed by decoders
				pay = bytes.Repeat([]byte{byte(0xA0 + i)}, n)
			}
			ms[i] = wmsg{code: uint64(16 + rng.Intn(8)), size: uint32(n), payload: pay}
		}
		p := prims{preload: rng.Bytes(40), aes: rng.Bytes(32), mac: rng.Bytes(32)}
		wire, _, werr := writeSession(p, sn, ms)
		sizes := make([]int, k)
		for i := range ms {
			sizes[i] = len(ms[i].payload)
		}
		in := map[string]interface{}{"aes": hx.Hex(p.aes), "mac": hx.Hex(p.mac), "preload": hx.Hex(p.preload), "snappy": sn, "sizes": sizes, "held": lag}
		run.Current(fmt.Sprintf("pipelined session %d snappy=%v sizes=%v held=%d", it, sn, sizes, lag))
		if werr != "-" {
			run.Violate("roundtrip", "rlpxFrameRW.WriteMsg failed (pipelined)", in, "write error at message "+werr)
			continue
		}
		out := hx.Safe(func() string {
			r := p.reader(newMemConn(wire), sn)
			var held []p2p.Msg
			var heldIdx []int
			check := func() string {
				m, idx := held[0], heldIdx[0]
				held, heldIdx = held[1:], heldIdx[1:]
				got, err := ioutil.ReadAll(m.Payload)
				if err != nil {
					return fmt.Sprintf("payload of message %d unreadable: %v", idx, err)
				}
				if m.Code != ms[idx].code || int(m.Size) != len(ms[idx].payload) || !bytes.Equal(got, ms[idx].payload) {
					return fmt.Sprintf("message %d (of %d, %d held unconsumed) was written as code=%d len=%d but is consumed as code=%d size=%d len=%d differing-bytes=%v",
						idx, k, lag, ms[idx].code, len(ms[idx].payload), m.Code, m.Size, len(got), !bytes.Equal(got, ms[idx].payload))
				}
				return ""
			}
			for i := 0; i < k; i++ {
				m, err := r.ReadMsg()
				if err != nil {
					return fmt.Sprintf("ReadMsg %d failed: %v", i, err)
				}
				held, heldIdx = append(held, m), append(heldIdx, i)
				if len(held) > lag {
					if e := check(); e != "" {
						return e
					}
				}
			}
			for len(held) > 0 {
				if e := check(); e != "" {
					return e
				}
			}
			return ""
		})
		run.Count("frame:pipelined:" + map[bool]string{true: "intact", false: "damaged"}[out == ""])
		if out != "" {
			kind := "altered-delivery"
			if strings.HasPrefix(out, "panic") {
				kind = "panic"
			}
			run.Violate(kind, "rlpxFrameRW pipelined reads: a delivered Msg changed under later ReadMsg calls", in, out)
		}
	}
	tick("F")
}

const maxU24 = int(p2p.VerifMaxUint24)

// c17: correspondence + direct-judgement harness for property C17 (network input is authenticated or rejected, never fatal).
// Drives the real discovery codec, RLPx frame codec, handshake readers, base-protocol peer loop and the aqua
// sub-protocol handler in-process (unexported entry points through -overlay accessors).
package main

import (
	"os"
	"strings"
	"time"

	"gitlab.com/aquachain/aquachain/common/log"
	"verifharness/hx"
)

func main() {
	run := hx.Start()
	log.Root().SetHandler(log.DiscardHandler()) // the node's own logging (bad-block reports etc.) is not part of the outcome
	rng := hx.NewRng(run.Seed)
	run.Watch(60*time.Second, 3<<30, func(cur string) string {
		f := strings.Fields(cur)
		if len(f) > 0 {
			return "watchdog " + f[0]
		}
		return "watchdog"
	})
	only := os.Getenv("C17_ONLY")
	sect := func(name string, tag uint64, f func(*hx.Run, *hx.Rng)) {
		r := rng.Fork(tag)
		if only != "" && !strings.Contains(only, name) {
			return
		}
		t0 := time.Now()
		f(run, r)
		run.Notes["wall_"+name] = time.Since(t0).Seconds()
	}
	var stalls *stallSet
	if only == "" || strings.Contains(only, "stall") {
		stalls = startStalls(run, rng.Fork(7)) // timer-bound scenarios: run concurrently, judged at the end
	}
	sect("disc", 1, discSection)
	sect("frame", 2, frameSection)
	sect("hs", 3, handshakeSection)
	sect("proto", 4, protoSection)
	sect("aqua", 5, aquaSection)
	sect("ident", 6, identSection)
	sect("bond", 8, bondSection)
	sect("dl", 9, dlSection)
	if stalls != nil {
		t0 := time.Now()
		stalls.join(run)
		run.Notes["wall_stall_join"] = time.Since(t0).Seconds()
	}
	run.Finish()
}

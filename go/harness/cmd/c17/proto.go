package main

// Base protocol: readProtocolHandshake and the real Server.runPeer / Peer.run / readLoop / handle over the real rlpx
// transport on a pipe: pings, disconnects with every reason value, unknown and out-of-range codes, sub-protocol
// messages, oversized and malformed payloads.

import (
	"bytes"
	"fmt"
	"io"
	"io/ioutil"
	"net"
	"strconv"
	"strings"
	"time"

	"gitlab.com/aquachain/aquachain/p2p"
	"gitlab.com/aquachain/aquachain/rlp"
	"verifharness/hx"
)

type oneMsg struct{ m *p2p.Msg }

func (o *oneMsg) ReadMsg() (p2p.Msg, error) {
	if o.m == nil {
		return p2p.Msg{}, io.EOF
	}
	m := *o.m
	o.m = nil
	return m, nil
}

func encUintRLP(x uint64) []byte { b, _ := rlp.EncodeToBytes(x); return b }

func protoSection(run *hx.Run, rng *hx.Rng) {
	// ---- 1. readProtocolHandshake
	validHS := func() []byte {
		id := rng.Bytes(64)
		caps := []interface{}{}
		for i := rng.Intn(3); i > 0; i-- {
			caps = append(caps, []interface{}{"aqua", uint(64 + i)})
		}
		v := []interface{}{uint64(rng.Pick([]int{4, 5, 6})), "aquachain/v1.7." + strconv.Itoa(rng.Intn(20)), caps, uint64(rng.Intn(65536)), id}
		if rng.Intn(4) == 0 {
			v = append(v, rng.Bytes(5), []interface{}{})
		}
		b, _ := rlp.EncodeToBytes(v)
		return b
	}
	phs := func(tag string, code uint64, size uint32, payload []byte) {
		// independent decode verdict for the model's `decodes` parameter
		dec := "0"
		if code == p2p.VerifHandshakeMsg {
			var hs struct {
				Version    uint64
				Name       string
				Caps       []p2p.Cap
				ListenPort uint64
				ID         [64]byte
				Rest       []rlp.RawValue `rlp:"tail"`
			}
			if rlp.NewStream(bytes.NewReader(payload), uint64(size)).Decode(&hs) == nil && hs.ID != [64]byte{} {
				dec = "1"
			}
		}
		in := fmt.Sprintf("phs %d %d %s", code, size, dec)
		full := fmt.Sprintf("p2p.readProtocolHandshake code=%d size=%d payload=%s", code, size, hx.Hex(payload))
		run.Current(full)
		out := hx.Safe(func() string {
			_, _, _, _, err := p2p.VerifReadProtocolHandshake(&oneMsg{&p2p.Msg{Code: code, Size: size, Payload: bytes.NewReader(payload)}})
			switch {
			case err == nil:
				return "ok"
			case strings.HasPrefix(err.Error(), "message too big"):
				return "toolarge"
			case strings.HasPrefix(err.Error(), "expected handshake"):
				return "badcode"
			case code == p2p.VerifDiscMsg:
				return "disc"
			default:
				return "decode"
			}
		})
		run.Case(in, out)
		run.Count("proto:hs-" + tag + ":" + out[:min(len(out), 8)])
		if strings.HasPrefix(out, "panic") {
			// the error value returned for a disconnect is the remote's reason; rendering it is part of returning it
			run.Violate("panic", "p2p.readProtocolHandshake: "+out, full, "readProtocolHandshake (or rendering its error) panicked: "+out)
		}
		if size > p2p.VerifBaseProtocolMaxMsgSize && out != "toolarge" {
			run.Violate("size-limit", "p2p.readProtocolHandshake baseProtocolMaxMsgSize", full, "oversized handshake not refused: "+out)
		}
		if tag == "valid" && out != "ok" {
			run.Violate("valid-rejected", "p2p.readProtocolHandshake rejects a well-formed handshake", full, out)
		}
	}
	nHS := 12
	if run.Thorough() {
		nHS = 300
	}
	for i := 0; i < nHS; i++ {
		p := validHS()
		phs("valid", 0, uint32(len(p)), p)
		for n := 0; n < len(p); n++ {
			phs("trunc", 0, uint32(n), p[:n])
		}
		for k := 0; k < len(p); k++ {
			q := append([]byte{}, p...)
			q[k] ^= byte(1 << uint((k+i)%8))
			phs("mutate", 0, uint32(len(q)), q)
		}
		phs("limit", 0, p2p.VerifBaseProtocolMaxMsgSize, p)
		phs("limit", 0, p2p.VerifBaseProtocolMaxMsgSize+1, p)
		phs("limit", 1, p2p.VerifBaseProtocolMaxMsgSize+1, p)
		phs("code", uint64(2+rng.Intn(30)), uint32(len(p)), p)
		r := rng.Bytes(rng.Intn(100))
		phs("random", 0, uint32(len(r)), r)
	}

	// ---- 1b. the peer loop with a slow protocol handler: sub-protocol message A, base-protocol messages handled inline by
	// readLoop, then sub-protocol message B — all read from the wire before the handler consumes A's payload.
	for vi, between := range [][]uint64{{p2p.VerifPingMsg}, {p2p.VerifPingMsg, p2p.VerifPingMsg}, {p2p.VerifPongMsg}, {p2p.VerifPingMsg, p2p.VerifPongMsg, 5}} {
		for _, sz := range []int{1, 17, 100, 5000} {
			full := fmt.Sprintf("p2p.Server.runPeer slow-handler between=%v size=%d", between, sz)
			run.Current(full)
			payA, payB := bytes.Repeat([]byte{0xA1}, sz), bytes.Repeat([]byte{0xB2}, sz)
			pre, pre2, aes, mac := rng.Bytes(48), rng.Bytes(48), rng.Bytes(32), rng.Bytes(32)
			out := hx.Guard(60*time.Second, func() string {
				a, b := net.Pipe()
				defer a.Close()
				defer b.Close()
				mine := p2p.VerifFrameRW(a, aes, mac, p2p.VerifKeccakMAC(pre), p2p.VerifKeccakMAC(pre2), false)
				bRead := make(chan struct{})
				got := make(chan []byte, 2)
				done := make(chan string, 1)
				go func() {
					done <- hx.Safe(func() string {
						p2p.VerifRunPeer(b, aes, mac, p2p.VerifKeccakMAC(pre2), p2p.VerifKeccakMAC(pre), false, 5, func(rw p2p.MsgReadWriter) error {
							m1, err := rw.ReadMsg()
							if err != nil {
								return err
							}
							<-bRead // busy elsewhere until the read loop has taken B off the wire
							p1, _ := ioutil.ReadAll(m1.Payload)
							got <- p1
							m2, err := rw.ReadMsg()
							if err != nil {
								return err
							}
							p2, _ := ioutil.ReadAll(m2.Payload)
							got <- p2
							return io.EOF
						})
						return "returned"
					})
				}()
				go func() { // take whatever the peer sends (pongs, disconnect)
					for {
						m, err := mine.ReadMsg()
						if err != nil {
							return
						}
						io.Copy(ioutil.Discard, m.Payload)
					}
				}()
				send := func(code uint64, pay []byte) bool {
					return writeOne(mine, wmsg{code: code, size: uint32(len(pay)), payload: pay}) == "ok"
				}
				if !send(16, payA) {
					return "write-failed"
				}
				for _, c := range between {
					if !send(c, []byte{0xc0}) {
						return "write-failed"
					}
				}
				if !send(17, payB) { // returns once the peer's read loop has read the whole frame
					return "write-failed"
				}
				close(bRead)
				var g1, g2 []byte
				select {
				case g1 = <-got:
				case <-time.After(30 * time.Second):
					return "handler-never-got-A"
				}
				select {
				case g2 = <-got:
				case <-time.After(30 * time.Second):
					return "handler-never-got-B"
				}
				a.Close()
				<-done
				if !bytes.Equal(g1, payA) {
					return fmt.Sprintf("damaged: message A (%d x 0xA1) reached the handler as %s...", sz, hx.Hex(g1[:min(len(g1), 12)]))
				}
				if !bytes.Equal(g2, payB) {
					return fmt.Sprintf("damaged: message B (%d x 0xB2) reached the handler as %s...", sz, hx.Hex(g2[:min(len(g2), 12)]))
				}
				return "intact"
			})
			run.Count("proto:slow-handler:" + strings.Fields(out)[0])
			_ = vi
			switch {
			case strings.HasPrefix(out, "damaged"):
				run.Violate("altered-delivery", "p2p.Peer.readLoop: payload of a delivered message changed before the handler consumed it", full, out)
			case strings.HasPrefix(out, "panic"):
				run.Violate("panic", "p2p.Server.runPeer slow-handler: "+out, full, out)
			case out != "intact":
				run.Violate("hang", "p2p.Server.runPeer slow-handler: "+out, full, "slow-handler session did not complete: "+out)
			}
		}
	}

	// ---- 2. the peer loop
	reasons := []uint64{0, 1, 2, 3, 4, 5, 6, 7, 8, 9, 10, 11, 12, 13, 14, 15, 16, 17, 18, 19, 20, 31, 32, 127, 128, 255, 256, 65535, 1 << 31, 1 << 32, 1<<63 - 1, 1 << 63, 1<<63 + 1, ^uint64(0)}
	type script struct {
		tag   string
		code  uint64
		pay   []byte
		close bool // close our end after sending (otherwise the peer is expected to hang up)
	}
	var scripts []script
	for _, r := range reasons {
		b, _ := rlp.EncodeToBytes([]uint64{r})
		scripts = append(scripts, script{"disc-reason-" + strconv.FormatUint(r, 10), p2p.VerifDiscMsg, b, false})
	}
	scripts = append(scripts,
		script{"disc-empty", p2p.VerifDiscMsg, nil, false},
		script{"disc-emptylist", p2p.VerifDiscMsg, []byte{0xc0}, false},
		script{"disc-string", p2p.VerifDiscMsg, []byte{0x05}, false},
		script{"disc-two", p2p.VerifDiscMsg, []byte{0xc2, 0x04, 0x05}, false},
		script{"disc-bigint", p2p.VerifDiscMsg, append([]byte{0xca, 0x89}, bytes.Repeat([]byte{0xff}, 9)...), false},
		script{"disc-garbage", p2p.VerifDiscMsg, rng.Bytes(40), false},
		script{"ping", p2p.VerifPingMsg, []byte{0xc0}, true},
		script{"ping-garbage", p2p.VerifPingMsg, rng.Bytes(300), true},
		script{"pong", p2p.VerifPongMsg, []byte{0xc0}, true},
		script{"handshake-again", p2p.VerifHandshakeMsg, []byte{0xc0}, true},
		script{"base-unknown-4", 4, rng.Bytes(20), true},
		script{"base-unknown-15", 15, rng.Bytes(20), true},
		script{"sub-first", 16, []byte{0xc1, 0x01}, true},
		script{"sub-last", 16 + 4, rng.Bytes(100), true},
		script{"sub-out-of-range", 16 + 5, []byte{0xc0}, false},
		script{"code-huge", ^uint64(0), []byte{0xc0}, false},
		script{"sub-big", 17, bytes.Repeat([]byte{1}, 1<<20), true},
	)
	for i, sc := range scripts {
		sn := i%2 == 0
		full := fmt.Sprintf("p2p.Server.runPeer script=%s code=%d payload=%s snappy=%v", sc.tag, sc.code, hx.Hex(sc.pay[:min(len(sc.pay), 64)]), sn)
		run.Current(full)
		out := hx.Guard(40*time.Second, func() string {
			a, b := net.Pipe()
			defer a.Close()
			defer b.Close()
			pre, aes, mac := rng.Bytes(48), rng.Bytes(32), rng.Bytes(32)
			pre2 := rng.Bytes(48)
			// our end: egress = peer's ingress and vice versa
			mine := p2p.VerifFrameRW(a, aes, mac, p2p.VerifKeccakMAC(pre), p2p.VerifKeccakMAC(pre2), sn)
			type res struct {
				req bool
				err error
			}
			done := make(chan string, 1)
			go func() {
				done <- hx.Safe(func() string {
					req, err := p2p.VerifRunPeer(b, aes, mac, p2p.VerifKeccakMAC(pre2), p2p.VerifKeccakMAC(pre), sn, 5, func(rw p2p.MsgReadWriter) error {
						for {
							m, err := rw.ReadMsg()
							if err != nil {
								return err
							}
							m.Discard()
						}
					})
					s := "nil"
					if err != nil {
						s = "error" // err.Error() was already evaluated inside runPeer
					}
					return fmt.Sprintf("returned requested=%v %s", req, s)
				})
			}()
			// keep reading whatever the peer sends (pong, disconnect) so that its writes complete
			got := make(chan uint64, 16)
			go func() {
				for {
					m, err := mine.ReadMsg()
					if err != nil {
						close(got)
						return
					}
					io.Copy(ioutil.Discard, m.Payload)
					select {
					case got <- m.Code:
					default:
					}
				}
			}()
			if cls := writeOne(mine, wmsg{code: sc.code, size: uint32(len(sc.pay)), payload: sc.pay}); cls != "ok" {
				return "write-" + cls
			}
			reply := ""
			if sc.tag == "ping" || sc.tag == "ping-garbage" {
				select {
				case c, ok := <-got:
					if ok {
						reply = " reply=" + strconv.FormatUint(c, 10)
					}
				case <-time.After(20 * time.Second):
					reply = " reply=none"
				}
			}
			if sc.close {
				a.Close()
			}
			return <-done + reply
		})
		run.Count("proto:peer:" + strings.Fields(out)[0])
		run.Notes["peer:"+sc.tag] = out
		switch {
		case strings.HasPrefix(out, "panic"):
			run.Violate("panic", "p2p.Server.runPeer "+sc.tag+": "+out, full,
				"a message from the remote peer made Server.runPeer panic (an unrecovered panic in that goroutine terminates the node): "+out)
		case out == "hang":
			run.Violate("hang", "p2p.Server.runPeer "+sc.tag, full, "the peer loop did not terminate")
		case (sc.tag == "ping" || sc.tag == "ping-garbage") && !strings.HasSuffix(out, "reply=3"):
			run.Violate("roundtrip", "p2p ping not answered with pong", full, out)
		}
	}
}

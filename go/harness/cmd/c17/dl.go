package main

// Downloader, sub-protocol payload level: a real skeleton-fill queue (newQueue, ScheduleSkeleton, ReserveHeaders) is handed
// BlockHeaders payloads through RLP decoding exactly as handleMsg does (Header.Version unset on every decoded header):
// the correct batch, shifted, broken, short, long, empty, duplicated, huge numbers, unknown peer, repeated delivery.
// Every delivery must end in accept or an error — a panic here is a panic of the un-recovered sync goroutine.

import (
	"fmt"
	"math/big"
	"strings"

	"gitlab.com/aquachain/aquachain/aqua/downloader"
	"gitlab.com/aquachain/aquachain/common"
	"gitlab.com/aquachain/aquachain/core/types"
	"verifharness/hx"
)

func dlSection(run *hx.Run, rng *hx.Rng) {
	B := downloader.VerifMaxHeaderFetch
	chain := downloader.VerifChain(3*B + 5)
	cp := func(from, n int) []*types.Header { // fresh copies, as if decoded
		out := make([]*types.Header, 0, n)
		for i := from; i < from+n && i < len(chain); i++ {
			out = append(out, types.CopyHeader(chain[i]))
		}
		return out
	}
	type batch struct {
		name   string
		peer   string // "" = the peer that reserved
		build  func(from int) []*types.Header
		accept bool
	}
	relink := func(hs []*types.Header, at int) { // keep numbers, break the parent link at index `at`
		hs[at].ParentHash = common.Hash{0xde, 0xad}
	}
	batches := []batch{
		{"correct", "", func(f int) []*types.Header { return cp(f, B) }, true},
		{"shifted by +1", "", func(f int) []*types.Header { return cp(f+1, B) }, false},
		{"shifted by -1", "", func(f int) []*types.Header { return cp(f-1, B) }, false},
		{"shifted by +192 (next batch)", "", func(f int) []*types.Header { return cp(f+B, B) }, false},
		{"wrong last header", "", func(f int) []*types.Header { h := cp(f, B); h[B-1].Extra = []byte("x"); return h }, false},
		{"wrong first header number only", "", func(f int) []*types.Header { h := cp(f, B); h[0].Number = big.NewInt(int64(f + 7)); return h }, false},
		{"broken parent link in the middle", "", func(f int) []*types.Header { h := cp(f, B); relink(h, 100); return h }, false},
		{"broken parent link at index 1", "", func(f int) []*types.Header { h := cp(f, B); relink(h, 1); return h }, false},
		{"wrong number in the middle", "", func(f int) []*types.Header { h := cp(f, B); h[57].Number = big.NewInt(5); return h }, false},
		{"short (191)", "", func(f int) []*types.Header { return cp(f, B-1) }, false},
		{"long (193)", "", func(f int) []*types.Header { return cp(f, B+1) }, false},
		{"empty", "", func(f int) []*types.Header { return nil }, false},
		{"single header", "", func(f int) []*types.Header { return cp(f, 1) }, false},
		{"one header duplicated 192 times", "", func(f int) []*types.Header {
			h := make([]*types.Header, B)
			for i := range h {
				h[i] = types.CopyHeader(chain[f])
			}
			return h
		}, false},
		{"last header duplicated 192 times", "", func(f int) []*types.Header {
			h := make([]*types.Header, B)
			for i := range h {
				h[i] = types.CopyHeader(chain[f+B-1])
			}
			return h
		}, false},
		{"huge numbers (2^64-1) everywhere", "", func(f int) []*types.Header {
			h := cp(f, B)
			for i := range h {
				h[i].Number = new(big.Int).SetUint64(^uint64(0))
			}
			return h
		}, false},
		{"first number 2^64+from (truncates to from)", "", func(f int) []*types.Header {
			h := cp(f, B)
			h[0].Number = new(big.Int).Add(new(big.Int).Lsh(big.NewInt(1), 64), big.NewInt(int64(f)))
			return h
		}, false},
		{"zero difficulty / zero time / empty extra headers", "", func(f int) []*types.Header {
			h := cp(f, B)
			for i := range h {
				h[i].Difficulty, h[i].Time, h[i].Extra = new(big.Int), new(big.Int), nil
			}
			return h
		}, false},
		{"random headers", "", func(f int) []*types.Header {
			h := make([]*types.Header, B)
			for i := range h {
				h[i] = &types.Header{Number: new(big.Int).SetUint64(rng.U64() >> uint(rng.Intn(64))), Difficulty: big.NewInt(1), Time: big.NewInt(1), Extra: rng.Bytes(rng.Intn(40))}
				copy(h[i].ParentHash[:], rng.Bytes(32))
			}
			return h
		}, false},
		{"correct batch from a peer that was not asked", "stranger", func(f int) []*types.Header { return cp(f, B) }, false},
		{"shifted batch from a peer that was not asked", "stranger", func(f int) []*types.Header { return cp(f+1, B) }, false},
	}
	for _, from := range []int{1, 1 + B} { // first and second fill task of the skeleton
		for _, b := range batches {
			desc := fmt.Sprintf("downloader.queue.DeliverHeaders skeleton from=1 batches=3, peer reserved, reply=%q for the task at %d (%d headers, wire-decoded)", b.name, from, len(b.build(from)))
			run.Current(desc)
			out := hx.Safe(func() string {
				q := downloader.VerifNewQueue(chain, 1, 3)
				got, ok := q.Reserve("peer-a")
				if ok && from != 1 { // take the second task: peer-b reserves it
					got, ok = q.Reserve("peer-b")
				}
				if !ok || int(got) != from {
					return fmt.Sprintf("setup: reserved %d ok=%v", got, ok)
				}
				peer := map[bool]string{true: "peer-a", false: "peer-b"}[from == 1]
				if b.peer != "" {
					peer = b.peer
				}
				n, derr, err := q.Deliver(peer, downloader.VerifWire(b.build(from)))
				res := "accept"
				switch {
				case derr != nil:
					res = "decode-error"
				case err != nil:
					res = "reject"
				}
				// a second delivery by the same peer has nothing pending any more
				_, _, err2 := q.Deliver(peer, downloader.VerifWire(cp(from, B)))
				if err2 == nil && res == "accept" {
					res += "+second-accepted"
				}
				_ = n
				return res
			})
			cls := strings.Fields(out)[0]
			run.Count("dl:headers:" + cls)
			switch {
			case strings.HasPrefix(out, "panic"):
				run.Violate("payload-crash", "downloader.queue.DeliverHeaders panics on "+b.name, desc,
					"a BlockHeaders reply made the skeleton-fill delivery panic (un-recovered in the sync goroutine): "+out)
			case strings.HasPrefix(out, "setup"):
				run.Violate("harness-setup", "downloader queue setup", desc, out)
			case b.accept && out != "accept":
				run.Violate("valid-rejected", "downloader.queue.DeliverHeaders refuses the correct batch", desc, out)
			case !b.accept && strings.HasPrefix(out, "accept"):
				run.Violate("tamper-accepted", "downloader.queue.DeliverHeaders accepts "+b.name, desc, out)
			}
		}
	}
}

package main

// RLPx encryption handshake: the real readHandshakeMsg / receiverEncHandshake / initiatorEncHandshake on valid packets,
// every truncation, single-byte mutations, random bytes, hostile size prefixes, and correctly ECIES-encrypted but
// malformed plaintexts. A completed handshake must yield two frame codecs that talk to each other.

import (
	"bytes"
	"crypto/ecdsa"
	"crypto/rand"
	"encoding/binary"
	"fmt"
	"io"
	"net"
	"strconv"
	"time"

	"github.com/btcsuite/btcd/btcec/v2"
	"gitlab.com/aquachain/aquachain/crypto"
	"gitlab.com/aquachain/aquachain/crypto/ecies"
	"gitlab.com/aquachain/aquachain/p2p"
	"gitlab.com/aquachain/aquachain/p2p/discover"
	"gitlab.com/aquachain/aquachain/rlp"
	"verifharness/hx"
)

// teeConn records what is read from and written to a net.Conn.
type teeConn struct {
	net.Conn
	in, out bytes.Buffer
}

func (t *teeConn) Read(p []byte) (int, error) {
	n, err := t.Conn.Read(p)
	t.in.Write(p[:n])
	return n, err
}
func (t *teeConn) Write(p []byte) (int, error) {
	t.out.Write(p)
	return t.Conn.Write(p)
}

func keyFrom(rng *hx.Rng) *ecdsa.PrivateKey {
	k, _ := btcec.PrivKeyFromBytes(crypto.Keccak256(rng.Bytes(32)))
	return k.ToECDSA()
}

func handshakeSection(run *hx.Run, rng *hx.Rng) {
	prvI, prvR := keyFrom(rng), keyFrom(rng)
	idR := discover.PubkeyID(&prvR.PublicKey)
	eciesR, eciesI := ecies.ImportECDSA(prvR), ecies.ImportECDSA(prvI)

	// ---- 1. a real handshake over a pipe; capture both packets; the negotiated codecs must interoperate
	var auth, resp []byte
	nPairs := 3
	if run.Thorough() {
		nPairs = 40
	}
	for i := 0; i < nPairs; i++ {
		run.Current(fmt.Sprintf("handshake-pair %d", i))
		a, b := net.Pipe()
		ta := &teeConn{Conn: a}
		type side struct {
			rw  p2p.MsgReadWriter
			id  discover.NodeID
			err error
		}
		ch := make(chan side, 1)
		go func() {
			rw, id, err := p2p.VerifEncHandshakeRW(b, prvR, nil)
			ch <- side{rw, id, err}
		}()
		a.SetDeadline(time.Now().Add(20 * time.Second))
		b.SetDeadline(time.Now().Add(20 * time.Second))
		rwI, _, errI := p2p.VerifEncHandshakeRW(ta, prvI, &idR)
		sR := <-ch
		if errI != nil || sR.err != nil {
			run.Violate("roundtrip", "rlpx encryption handshake failed between two honest ends", nil, fmt.Sprint(errI, " / ", sR.err))
			a.Close()
			b.Close()
			continue
		}
		if sR.id != discover.PubkeyID(&prvI.PublicKey) {
			run.Violate("authentication", "receiver identified the wrong initiator key", nil, "remote id mismatch")
		}
		auth, resp = append([]byte{}, ta.out.Bytes()...), append([]byte{}, ta.in.Bytes()...)
		// both directions
		for dir := 0; dir < 2; dir++ {
			w, r := rwI, sR.rw
			if dir == 1 {
				w, r = sR.rw, rwI
			}
			m := wmsg{code: genCode(rng), payload: genPayload(rng, rng.Pick([]int{0, 1, 16, 100, 5000}))}
			m.size = uint32(len(m.payload))
			done := make(chan string, 1)
			go func() { done <- writeOne(w, m) }()
			res := readOne(r)
			wc := <-done
			if wc != "ok" || !res.ok || res.code != m.code || !bytes.Equal(res.payload, m.payload) {
				run.Violate("roundtrip", "frames after a real handshake do not round-trip", nil, fmt.Sprintf("write=%s read=%s", wc, res.cls))
			}
		}
		run.Count("hs:pair-ok")
		a.Close()
		b.Close()
	}
	if auth == nil {
		return
	}

	// ---- 2. readHandshakeMsg / full receiver / full initiator on hostile bytes
	try := func(tag string, kind byte, in []byte) {
		prv, ek := prvR, eciesR
		plain := p2p.VerifEncAuthMsgLen
		if kind == 'r' {
			prv, ek, plain = prvI, eciesI, p2p.VerifEncAuthRespLen
		}
		// oracles for the ECIES / RLP parameters of the model
		d1, d2, rl := "x", "x", "0"
		if len(in) >= plain {
			if m, err := ek.Decrypt(in[:plain], nil, nil); err == nil {
				d1 = strconv.Itoa(len(m))
			} else if size := int(binary.BigEndian.Uint16(in[:2])); size >= plain&0xffff && len(in) >= size+2 {
				if m, err := ek.Decrypt(in[2:size+2], nil, in[:2]); err == nil {
					d2 = strconv.Itoa(len(m))
					rl = "?"
				}
			}
		}
		full := fmt.Sprintf("readHandshakeMsg kind=%c input=%s", kind, hx.Hex(in))
		run.Current(full)
		before := totalAlloc()
		var buflen int
		out := hx.Safe(func() string {
			n, err := p2p.VerifReadHandshakeMsg(kind, prv, bytes.NewReader(in))
			buflen = n
			if err != nil {
				return "err"
			}
			return "ok " + strconv.Itoa(n)
		})
		used := totalAlloc() - before
		if rl == "?" { // the model takes the RLP verdict from the real run (the body decoder is a parameter)
			rl = "0"
			if out[:2] == "ok" {
				rl = "1"
			}
		}
		run.Case(fmt.Sprintf("hs %c %d %s %s %s %s", kind, plain, hx.Hex(in), d1, d2, rl), out)
		run.Count("hs:" + tag + ":" + out[:min(len(out), 2)])
		if len(out) >= 5 && out[:5] == "panic" {
			run.Violate("panic", "p2p.readHandshakeMsg: "+out, full, "readHandshakeMsg panicked ("+tag+"): "+out)
		}
		if buflen > 65535+2 || used > 4<<20 {
			run.Violate("over-allocation", "p2p.readHandshakeMsg buffer", full, fmt.Sprintf("buffer %d bytes, %d bytes allocated", buflen, used))
		}
		// the complete handshake functions on the same bytes (they go on to use the decoded fields)
		run.Current("full-" + full)
		o2 := hx.Safe(func() string {
			var err error
			if kind == 'a' {
				_, _, _, err = p2p.VerifReceiverEncHandshake(newMemConn(in), prvR)
			} else {
				_, _, err = p2p.VerifInitiatorEncHandshake(newMemConn(in), prvI, idR)
			}
			if err != nil {
				return "err"
			}
			return "ok"
		})
		run.Count("hs:full-" + tag + ":" + o2[:min(len(o2), 5)])
		if len(o2) >= 5 && o2[:5] == "panic" {
			run.Violate("panic", "p2p enc handshake ("+string(kind)+"): "+o2, full, "encryption handshake panicked ("+tag+"): "+o2)
		}
		if tag != "valid" && tag != "trailing" && tag != "enc-valid-fields" && o2 == "ok" {
			run.Violate("tamper-accepted", "p2p enc handshake accepted a damaged packet ("+string(kind)+")", full, tag)
		}
	}

	for _, kv := range []struct {
		kind byte
		pkt  []byte
	}{{'a', auth}, {'r', resp}} {
		kind, pkt := kv.kind, kv.pkt
		try("valid", kind, pkt)
		step := 1
		if !run.Thorough() {
			step = 3
		}
		for n := 0; n < len(pkt); n += step {
			try("trunc", kind, pkt[:n])
		}
		for pos := 0; pos < len(pkt); pos += step {
			mut := append([]byte{}, pkt...)
			mut[pos] ^= byte(1 << uint(pos%8))
			try("mutate", kind, mut)
		}
		try("trailing", kind, append(append([]byte{}, pkt...), rng.Bytes(10)...)) // extra bytes stay unread: still valid
	}
	nRand := 60
	if run.Thorough() {
		nRand = 3000
	}
	for i := 0; i < nRand; i++ {
		kind := byte('a')
		plain := p2p.VerifEncAuthMsgLen
		if rng.Bool() {
			kind, plain = 'r', p2p.VerifEncAuthRespLen
		}
		switch rng.Intn(3) {
		case 0:
			try("random", kind, rng.Bytes(rng.Intn(900)))
		case 1: // hostile size prefix followed by random bytes of assorted lengths
			size := rng.Pick([]int{0, 1, plain - 1, plain, plain + 1, 1000, 65535})
			b := rng.Bytes(rng.Pick([]int{plain, size + 1, size + 2, size + 3, 70000}))
			if len(b) >= 2 {
				binary.BigEndian.PutUint16(b, uint16(size))
			}
			if len(b) > 2 {
				b[2] = byte(rng.Pick([]int{2, 3, 4, 0, 5})) // first ciphertext byte selects the ECIES public-key format
			}
			try("prefix", kind, b)
		default: // plausible public key prefix, random rest
			b := rng.Bytes(plain)
			b[0] = 4
			try("random-04", kind, b)
		}
	}

	// ---- 3. correctly encrypted, malformed plaintext
	enc := func(kind byte, m []byte, eip8 bool, padTo int) []byte {
		pub := &eciesR.PublicKey
		if kind == 'r' {
			pub = &eciesI.PublicKey
		}
		if !eip8 {
			ct, err := ecies.Encrypt(rand.Reader, pub, m, nil, nil)
			if err != nil {
				return nil
			}
			return ct
		}
		for len(m) < padTo {
			m = append(m, 0)
		}
		prefix := make([]byte, 2)
		binary.BigEndian.PutUint16(prefix, uint16(len(m)+p2p.VerifEciesOverhead))
		ct, err := ecies.Encrypt(rand.Reader, pub, m, nil, prefix)
		if err != nil {
			return nil
		}
		return append(prefix, ct...)
	}
	nEnc := 40
	if run.Thorough() {
		nEnc = 1500
	}
	for i := 0; i < nEnc; i++ {
		kind := byte('a')
		plainLen := p2p.VerifEncAuthMsgLen - p2p.VerifEciesOverhead
		if rng.Bool() {
			kind, plainLen = 'r', p2p.VerifEncAuthRespLen-p2p.VerifEciesOverhead
		}
		var pkt []byte
		tag := "enc-garbage"
		switch rng.Intn(6) {
		case 0: // pre-EIP-8 plain format with random fields
			pkt = enc(kind, rng.Bytes(plainLen), false, 0)
			tag = "enc-plain-random"
		case 1: // EIP-8 with random bytes
			pkt = enc(kind, rng.Bytes(rng.Intn(300)), true, plainLen+rng.Intn(200))
		case 2: // EIP-8, well-formed RLP with random field contents
			var body []byte
			if kind == 'a' {
				body, _ = rlp.EncodeToBytes([]interface{}{rng.Bytes(65), rng.Bytes(64), rng.Bytes(32), uint(4)})
			} else {
				body, _ = rlp.EncodeToBytes([]interface{}{rng.Bytes(64), rng.Bytes(32), uint(4)})
			}
			pkt = enc(kind, body, true, plainLen+100)
			tag = "enc-valid-fields"
		case 3: // EIP-8, truncated RLP
			body, _ := rlp.EncodeToBytes([]interface{}{rng.Bytes(65), rng.Bytes(64), rng.Bytes(32), uint(4)})
			pkt = enc(kind, body[:rng.Intn(len(body))], true, 0)
			tag = "enc-short"
		case 4: // EIP-8, maximal size
			pkt = enc(kind, rng.Bytes(100), true, 65535-p2p.VerifEciesOverhead)
			tag = "enc-max"
		default: // EIP-8, wrong field sizes / huge tail
			body, _ := rlp.EncodeToBytes([]interface{}{rng.Bytes(rng.Intn(70)), rng.Bytes(rng.Intn(70)), rng.Bytes(rng.Intn(40)), rng.U64(), rng.Bytes(2000), []interface{}{[]interface{}{}}})
			pkt = enc(kind, body, true, plainLen+100)
			tag = "enc-wrong-fields"
		}
		if pkt != nil {
			try(tag, kind, pkt)
		}
	}
	_ = io.EOF
}

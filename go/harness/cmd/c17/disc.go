package main

// Discovery datagrams: the real decodePacket / encodePacket (both netcompat modes) on valid packets, every truncation,
// single-byte mutations, correctly signed malformed / short / oversized payloads, and random bytes.

import (
	"bytes"
	"fmt"
	"strconv"
	"strings"
	"time"

	"github.com/btcsuite/btcd/btcec/v2"
	"gitlab.com/aquachain/aquachain/crypto"
	"gitlab.com/aquachain/aquachain/p2p/discover"
	"gitlab.com/aquachain/aquachain/rlp"
	"verifharness/hx"
)

func rEp(e discover.VerifEP) string {
	return hx.Hex(e.IP) + "/" + strconv.Itoa(int(e.UDP)) + "/" + strconv.Itoa(int(e.TCP))
}

func joinOrDash(xs []string, sep string) string {
	if len(xs) == 0 {
		return "-"
	}
	return strings.Join(xs, sep)
}

func rRest(r [][]byte) string {
	xs := make([]string, len(r))
	for i, x := range r {
		xs[i] = hx.Hex(x)
	}
	return joinOrDash(xs, ",")
}

// renderPkt must match lean/Driver/C17.lean renderPacket.
func renderPkt(p *discover.VerifPkt) string {
	exp := " exp=" + strconv.FormatUint(p.Expiration, 10) + " rest=" + rRest(p.Rest)
	switch p.Kind {
	case 'p':
		return "p v=" + strconv.FormatUint(uint64(p.Version), 10) + " src=" + rEp(p.From) + " dst=" + rEp(p.To) + exp
	case 'o':
		return "o dst=" + rEp(p.To) + " tok=" + hx.Hex(p.ReplyTok) + exp
	case 'f':
		return "f target=" + hx.Hex(p.Target[:]) + exp
	default:
		ns := make([]string, len(p.Nodes))
		for i, n := range p.Nodes {
			ns[i] = hx.Hex(n.IP) + "/" + strconv.Itoa(int(n.UDP)) + "/" + strconv.Itoa(int(n.TCP)) + "/" + hx.Hex(n.ID[:])
		}
		return "n nodes=" + joinOrDash(ns, ";") + exp
	}
}

type discCtx struct {
	run  *hx.Run
	rng  *hx.Rng
	keys []*btcec.PrivateKey
	ids  []discover.NodeID

	lastAlloc uint64 // bytes allocated by the last measured decodePacket call
}

func newDiscCtx(run *hx.Run, rng *hx.Rng) *discCtx {
	c := &discCtx{run: run, rng: rng}
	for i := 0; i < 3; i++ {
		k, _ := btcec.PrivKeyFromBytes(crypto.Keccak256(rng.Bytes(32)))
		c.keys = append(c.keys, k)
		c.ids = append(c.ids, discover.PubkeyID(k.PubKey().ToECDSA()))
	}
	return c
}

// signed builds hash ‖ sig ‖ sigdata with a valid hash and a valid signature by key k.
func (c *discCtx) signed(k int, sigdata []byte) []byte {
	sig, err := crypto.Sign(crypto.Keccak256(sigdata), c.keys[k])
	if err != nil {
		panic(err)
	}
	body := append(append([]byte{}, sig...), sigdata...)
	return append(crypto.Keccak256(body), body...)
}

func (c *discCtx) genIP() []byte {
	switch c.rng.Intn(6) {
	case 0:
		return nil
	case 1:
		return c.rng.Bytes(16)
	case 2:
		return c.rng.Bytes(1 + c.rng.Intn(20))
	default:
		return c.rng.Bytes(4)
	}
}
func (c *discCtx) genU16() uint16 {
	return uint16(c.rng.Pick([]int{0, 1, 127, 128, 255, 256, 1024, 1025, 30303, 21303, 65535, c.rng.Intn(65536)}))
}
func (c *discCtx) genU64() uint64 {
	switch c.rng.Intn(6) {
	case 0:
		return 0
	case 1:
		return uint64(c.rng.Intn(300))
	case 2:
		return ^uint64(0) >> uint(c.rng.Intn(64))
	case 3:
		return uint64(time.Now().Unix()) + uint64(c.rng.Intn(100000)) + 2000
	default:
		return c.rng.U64()
	}
}
func (c *discCtx) genRaw(depth int) []byte {
	var v interface{}
	if depth > 0 && c.rng.Intn(3) == 0 {
		n := c.rng.Intn(4)
		xs := make([]interface{}, n)
		for i := range xs {
			xs[i] = rlp.RawValue(c.genRaw(depth - 1))
		}
		v = xs
	} else {
		v = c.rng.Bytes(c.rng.Pick([]int{0, 1, 1, 2, 8, 55, 56, 60}))
	}
	b, _ := rlp.EncodeToBytes(v)
	return b
}
func (c *discCtx) genEP() discover.VerifEP {
	return discover.VerifEP{IP: c.genIP(), UDP: c.genU16(), TCP: c.genU16()}
}
func (c *discCtx) genPkt(kind byte) *discover.VerifPkt {
	p := &discover.VerifPkt{Kind: kind, Expiration: c.genU64()}
	switch kind {
	case 'p':
		p.Version, p.From, p.To = uint(c.genU64()), c.genEP(), c.genEP()
	case 'o':
		p.To, p.ReplyTok = c.genEP(), c.rng.Bytes(c.rng.Pick([]int{0, 1, 32, 32, 32, 40}))
		if len(p.ReplyTok) == 1 && c.rng.Bool() {
			p.ReplyTok[0] &= 0x7f
		}
	case 'f':
		copy(p.Target[:], c.rng.Bytes(64))
	default:
		n := c.rng.Pick([]int{0, 1, 2, 3, 12})
		for i := 0; i < n; i++ {
			nd := discover.VerifNode{IP: c.genIP(), UDP: c.genU16(), TCP: c.genU16()}
			copy(nd.ID[:], c.rng.Bytes(64))
			p.Nodes = append(p.Nodes, nd)
		}
	}
	if c.rng.Intn(3) == 0 {
		for i := c.rng.Intn(3) + 1; i > 0; i-- {
			p.Rest = append(p.Rest, c.genRaw(2))
		}
	}
	return p
}

// dec runs the real decodePacket on a private copy of buf and records the model case.
func (c *discCtx) dec(nc bool, buf []byte, tag string) string {
	run := c.run
	ncs := "0"
	if nc {
		ncs = "1"
	}
	// oracle for the signature-recovery parameter of the model: consulted only when the hash matches
	rec := "x"
	if len(buf) >= discover.VerifHeadSize+1 && bytes.Equal(buf[:32], crypto.Keccak256(buf[32:])) {
		id, err := discover.VerifRecoverNodeID(crypto.Keccak256(buf[discover.VerifHeadSize:]), buf[32:discover.VerifHeadSize])
		if err != nil {
			rec = "e"
		} else {
			rec = hx.Hex(id[:])
		}
	}
	in := "disc " + ncs + " " + hx.Hex(buf) + " " + rec
	run.Current(in)
	cp := append([]byte{}, buf...)
	measure := strings.HasPrefix(tag, "inflated")
	var before uint64
	if measure {
		before = totalAlloc()
	}
	defer func() {
		if measure {
			c.lastAlloc = totalAlloc() - before
		}
	}()
	out := hx.Safe(func() string {
		p, id, hash, err := discover.VerifDecodePacket(nc, cp)
		if err != nil {
			return "err"
		}
		return "ok id=" + hx.Hex(id[:]) + " h=" + hx.Hex(hash) + " " + renderPkt(p)
	})
	run.Case(in, out)
	cls := strings.Fields(out)[0]
	run.Count("disc:" + tag + ":" + cls)
	if cls == "panic" {
		run.Violate("panic", fmt.Sprintf("discover.decodePacket netcompat=%v sigdata-len=%d: %s", nc, len(buf)-discover.VerifHeadSize, out), in,
			"decodePacket panicked on a datagram ("+tag+"): "+out)
	}
	return out
}

func discSection(run *hx.Run, rng *hx.Rng) {
	c := newDiscCtx(run, rng)
	kinds := []byte{'p', 'o', 'f', 'n'}
	nValid := 12
	nSigned := 1500
	nRandom := 1500
	masksPer := 1
	if run.Thorough() {
		nValid, nSigned, nRandom, masksPer = 120, 40000, 40000, 3
	}

	// --- 1. valid packets through the real encoder: round trip, all truncations, single-byte mutations
	for i := 0; i < nValid; i++ {
		for _, nc := range []bool{false, true} {
			kind := kinds[i%4]
			p := c.genPkt(kind)
			k := rng.Intn(len(c.keys))
			ptype := discover.VerifTypeByte(nc, kind)
			if nc && rng.Intn(4) == 0 {
				ptype = discover.VerifTypeByte(false, kind) // aqua type byte in netcompat mode is accepted unchanged
			}
			var pkt, hash []byte
			eo := hx.Safe(func() string {
				var err error
				pkt, hash, err = discover.VerifEncodePacket(nc, c.keys[k], ptype, p)
				if err != nil {
					return "err"
				}
				return "ok " + hx.Hex(pkt) + " " + hx.Hex(hash)
			})
			if !strings.HasPrefix(eo, "ok") {
				run.Violate("encode-failed", "discover.encodePacket "+eo, renderPkt(p), "encodePacket failed on a valid request: "+eo)
				continue
			}
			ncs := "0"
			if nc {
				ncs = "1"
			}
			run.Case("enc "+ncs+" "+strconv.Itoa(int(ptype))+" "+hx.Hex(pkt[32:97])+" "+renderPkt(p), eo)
			run.Count("disc:enc:" + string(kind))
			want := "ok id=" + hx.Hex(c.ids[k][:]) + " h=" + hx.Hex(hash) + " " + renderPkt(p)
			got := c.dec(nc, pkt, "valid")
			if got != want {
				run.Violate("roundtrip", "discover round trip", map[string]string{"packet": hx.Hex(pkt), "netcompat": ncs},
					"decodePacket(encodePacket(req)) differs from req: got "+got+" want "+want)
			}
			// the other mode must not deliver it as something else
			c.dec(!nc, pkt, "valid-othermode")
			// every truncation
			for n := 0; n < len(pkt); n++ {
				if o := c.dec(nc, pkt[:n], "trunc"); strings.HasPrefix(o, "ok") {
					run.Violate("tamper-accepted", "discover truncation accepted", hx.Hex(pkt[:n]), "truncated datagram delivered: "+o)
				}
			}
			// every single-byte mutation (every position, masksPer random masks; all bit positions cycle through)
			for pos := 0; pos < len(pkt); pos++ {
				for m := 0; m < masksPer; m++ {
					mask := byte(1 << uint((pos+m+i)%8))
					if m > 0 {
						mask = byte(rng.Intn(255) + 1)
					}
					mut := append([]byte{}, pkt...)
					mut[pos] ^= mask
					o := c.dec(nc, mut, "mutate")
					if strings.HasPrefix(o, "ok") && strings.Contains(o, "id="+hx.Hex(c.ids[k][:])+" ") {
						run.Violate("tamper-accepted", "discover mutation accepted", hx.Hex(mut),
							"datagram with a flipped byte delivered as signed by the original key: "+o)
					}
				}
			}
		}
	}

	// --- 2. correctly hashed and signed, but malformed / short / oversized signed data
	bodyOf := func(kind byte) []byte {
		b, _ := rlp.EncodeToBytes(discover.VerifReq(c.genPkt(kind)))
		return b
	}
	mk := func(nc bool, t byte, tagged bool, body []byte) []byte {
		sd := []byte{t}
		if tagged {
			sd = append(sd, "aqua"...)
		}
		return append(sd, body...)
	}
	// 2a. every type byte with empty / tiny signed data (the short-payload sweep): sigdata lengths 1..8
	for _, nc := range []bool{false, true} {
		for k := 0; k < 3; k++ { // empty signed data: exactly headSize bytes with a valid hash and signature
			c.dec(nc, c.signed(k, nil), "signed-short")
		}
		for t := 0; t < 256; t++ {
			for l := 1; l <= 8; l++ {
				if l > 2 && !(t >= 1 && t <= 4 || t >= 134 && t <= 137) && !run.Thorough() {
					continue
				}
				sd := append([]byte{byte(t)}, rng.Bytes(l-1)...)
				c.dec(nc, c.signed(t%3, sd), "signed-short")
			}
		}
	}
	// 2b. truncations of the signed data of valid bodies at every length, re-signed
	for i := 0; i < 8; i++ {
		for _, nc := range []bool{false, true} {
			kind := kinds[i%4]
			full := mk(nc, discover.VerifTypeByte(nc, kind), !nc, bodyOf(kind))
			for n := 1; n <= len(full); n++ {
				c.dec(nc, c.signed(i%3, full[:n]), "signed-trunc")
			}
		}
	}
	// 2c. random structure-aware damage, signed
	for i := 0; i < nSigned; i++ {
		nc := rng.Bool()
		kind := kinds[rng.Intn(4)]
		body := bodyOf(kind)
		t := discover.VerifTypeByte(rng.Bool(), kind)
		tagged := !nc
		switch rng.Intn(10) {
		case 0: // flip bytes in the body
			for j := rng.Intn(3) + 1; j > 0 && len(body) > 0; j-- {
				body[rng.Intn(len(body))] ^= byte(rng.Intn(255) + 1)
			}
		case 1: // overwrite a byte with a boundary value
			if len(body) > 0 {
				body[rng.Intn(len(body))] = byte(rng.Pick([]int{0, 0x7f, 0x80, 0x81, 0xb7, 0xb8, 0xbf, 0xc0, 0xf7, 0xf8, 0xff}))
			}
		case 2: // huge declared sizes
			body = append([]byte{byte(rng.Pick([]int{0xb8, 0xb9, 0xbb, 0xbf, 0xf8, 0xf9, 0xfb, 0xff}))}, append(rng.Bytes(rng.Intn(9)), body...)...)
		case 3: // random bytes
			body = rng.Bytes(rng.Intn(200))
		case 4: // oversized: beyond the 1280-byte datagram limit of the read loop and far beyond
			body = append(body, rng.Bytes(rng.Pick([]int{1200, 1300, 4000, 70000}))...)
		case 5: // wrong / missing tag
			tagged = !tagged
		case 6: // trailing garbage after a valid body
			body = append(body, rng.Bytes(rng.Intn(40)+1)...)
		case 7: // other type byte
			t = byte(rng.Intn(256))
		case 8: // deep nesting
			body = append(bytes.Repeat([]byte{0xc1}, rng.Intn(600)), 0xc0)
		case 9: // wrong packet type for the body
			t = discover.VerifTypeByte(rng.Bool(), kinds[rng.Intn(4)])
		}
		c.dec(nc, c.signed(rng.Intn(3), mk(nc, t, tagged, body)), "signed-malformed")
	}

	// --- 2d. consistently inflated length prefixes: a short, correctly hashed and signed datagram whose RLP claims a huge
	// byte string (or raw tail element) and whose enclosing lists all claim matching sizes, so that only the check against
	// the real input length can stop the decoder from allocating what is claimed.
	rlpHdr := func(base byte, l uint64) []byte {
		if l < 56 {
			return []byte{base + byte(l)}
		}
		var b []byte
		for y := l; y > 0; y >>= 8 {
			b = append([]byte{byte(y)}, b...)
		}
		return append([]byte{base + 55 + byte(len(b))}, b...)
	}
	cat := func(parts ...[]byte) []byte {
		var o []byte
		for _, p := range parts {
			o = append(o, p...)
		}
		return o
	}
	u := func(x uint64) []byte { b, _ := rlp.EncodeToBytes(x); return b }
	bs := func(x []byte) []byte { b, _ := rlp.EncodeToBytes(x); return b }
	// list whose header claims `claimed` extra bytes beyond what is really there
	type piece struct {
		data    []byte
		claimed uint64 // size the piece pretends to have
	}
	real := func(b []byte) piece { return piece{b, uint64(len(b))} }
	list := func(ps ...piece) piece { // consistent: the header claims the sum of what the members claim
		var body []byte
		var claim uint64
		for _, p := range ps {
			body = append(body, p.data...)
			claim += p.claimed
		}
		h := rlpHdr(0xc0, claim)
		return piece{cat(h, body), uint64(len(h)) + claim}
	}
	str := func(l uint64, content []byte) piece { // string header claiming l bytes, followed by only len(content) bytes
		h := rlpHdr(0x80, l)
		return piece{cat(h, content), uint64(len(h)) + l}
	}
	rawList := func(l uint64) piece { h := rlpHdr(0xc0, l); return piece{h, uint64(len(h)) + l} }
	future := uint64(time.Now().Unix()) + 100000
	ep := func() piece { return list(real(bs([]byte{10, 0, 0, 1})), real(u(30303)), real(u(30303))) }
	id64 := rng.Bytes(64)
	inflated := func(l uint64) map[string]struct {
		kind byte
		body []byte
	} {
		type kb = struct {
			kind byte
			body []byte
		}
		few := rng.Bytes(4)
		return map[string]kb{
			"ping.From.IP":         {'p', list(real(u(4)), list(str(l, few), real(u(30303)), real(u(30303))), ep(), real(u(future))).data},
			"ping.To.IP":           {'p', list(real(u(4)), ep(), list(str(l, few), real(u(1)), real(u(2))), real(u(future))).data},
			"ping.tail":            {'p', list(real(u(4)), ep(), ep(), real(u(future)), str(l, few)).data},
			"pong.To.IP":           {'o', list(list(str(l, few), real(u(30303)), real(u(30303))), real(bs(rng.Bytes(32))), real(u(future))).data},
			"pong.ReplyTok":        {'o', list(ep(), str(l, few), real(u(future))).data},
			"pong.tail(list)":      {'o', list(ep(), real(bs(rng.Bytes(32))), real(u(future)), rawList(l)).data},
			"findnode.tail":        {'f', list(real(bs(id64)), real(u(future)), str(l, few)).data},
			"findnode.tail(list)":  {'f', list(real(bs(id64)), real(u(future)), rawList(l)).data},
			"neighbors.Nodes[0].IP": {'n', list(list(list(str(l, few), real(u(30303)), real(u(30303)), real(bs(id64)))), real(u(future))).data},
			"neighbors.Nodes[1].IP": {'n', list(list(list(real(bs([]byte{10, 0, 0, 2})), real(u(30303)), real(u(30303)), real(bs(id64))),
				list(str(l, few), real(u(1)), real(u(2)), real(bs(id64)))), real(u(future))).data},
			"neighbors.tail": {'n', list(list(), real(u(future)), str(l, few)).data},
			// inconsistent variants: only the innermost claim is inflated (the enclosing list bounds it)
			"ping.From.IP(inner only)": {'p', cat(rlpHdr(0xc0, 40), u(4), rlpHdr(0xc0, 20), rlpHdr(0x80, l), few, u(30303), u(30303))},
		}
	}
	stopInflated := false
	fieldsOrder := []string{"ping.From.IP", "ping.To.IP", "ping.tail", "pong.To.IP", "pong.ReplyTok", "pong.tail(list)", "findnode.tail", "findnode.tail(list)",
		"neighbors.Nodes[0].IP", "neighbors.Nodes[1].IP", "neighbors.tail", "ping.From.IP(inner only)"}
	for _, l := range []uint64{1 << 10, 1 << 16, 1 << 24, 1 << 28, 1 << 31, 1 << 40, 1 << 62, 1<<63 + 5} {
		if stopInflated {
			run.Count("disc:inflated:skipped-after-violation")
			continue // larger claims would only exhaust memory once the decoder is known to trust them
		}
		m := inflated(l)
		for _, f := range fieldsOrder {
			for _, nc := range []bool{false, true} {
				kb := m[f]
				dg := c.signed(rng.Intn(3), mk(nc, discover.VerifTypeByte(nc, kb.kind), !nc, kb.body))
				o := c.dec(nc, dg, "inflated")
				in := map[string]interface{}{"field": f, "claimed": l, "netcompat": nc, "datagram": hx.Hex(dg), "datagram_len": len(dg)}
				if strings.HasPrefix(o, "panic") {
					stopInflated = true // already reported by dec
				}
				if c.lastAlloc > 1<<20 {
					stopInflated = true
					run.Violate("over-allocation", "discover.decodePacket allocates what an inflated length prefix claims ("+f+")", in,
						fmt.Sprintf("a %d-byte signed datagram claiming a %d-byte %s made decodePacket allocate %d bytes", len(dg), l, f, c.lastAlloc))
				}
				if strings.HasPrefix(o, "ok") {
					run.Violate("tamper-accepted", "discover.decodePacket accepts an inflated length ("+f+")", in, o)
				}
			}
		}
	}

	// --- 3. unauthenticated noise: random bytes, valid hash over random content, truncated heads
	for i := 0; i < nRandom; i++ {
		nc := rng.Bool()
		var buf []byte
		switch rng.Intn(4) {
		case 0:
			buf = rng.Bytes(rng.Intn(1400))
		case 1:
			buf = rng.Bytes(rng.Pick([]int{0, 1, 31, 32, 33, 96, 97, 98, 99, 102, 103}))
		case 2: // correct hash, random signature and content
			b := rng.Bytes(65 + 1 + rng.Intn(120))
			b[65] = discover.VerifTypeByte(rng.Bool(), kinds[rng.Intn(4)])
			b[64] = byte(rng.Intn(5))
			buf = append(crypto.Keccak256(b), b...)
		default: // correct hash, zero signature
			b := append(make([]byte, 65), bodyOf(kinds[rng.Intn(4)])...)
			buf = append(crypto.Keccak256(b), b...)
		}
		c.dec(nc, buf, "noise")
	}

	// --- 4. expiry, away from the wall-clock edge
	now := uint64(time.Now().Unix())
	for _, ts := range []uint64{0, 1, now - 100000, now - 1000, now + 1000, now + 100000, 1 << 31, 1 << 32, 1<<62 + 5, 1<<63 - 1, 1 << 63, 1<<63 + 1,
		^uint64(0), ^uint64(0) - 62135596800, 1<<63 - 62135596800 - 1, 1<<63 - 62135596800, 1<<63 - 62135596800 + 1, rng.U64(), rng.U64()} {
		n := uint64(time.Now().Unix())
		in := fmt.Sprintf("exp %d %d", n, ts)
		run.Current(in)
		out := hx.Safe(func() string {
			if discover.VerifExpired(ts) {
				return "1"
			}
			return "0"
		})
		run.Case(in, out)
		run.Count("disc:exp:" + out)
	}
}

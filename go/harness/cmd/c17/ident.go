package main

// Identity validation lattice: NodeID.Pubkey(), Node.validateComplete and the RLPx responder (real doEncHandshake on a
// pipe, fed a correctly ECIES-encrypted EIP-8 auth packet that carries a valid recoverable signature and NAMES the
// identity under test) on on-curve, off-curve and degenerate identities. An identity that is not a point of
// secp256k1 must be refused before any secret is derived; the curve equation is recomputed here with big.Int.

import (
	"crypto/rand"
	"encoding/binary"
	"io"
	"io/ioutil"
	"math/big"
	"net"
	"time"

	"gitlab.com/aquachain/aquachain/crypto"
	"gitlab.com/aquachain/aquachain/crypto/ecies"
	"gitlab.com/aquachain/aquachain/p2p"
	"gitlab.com/aquachain/aquachain/p2p/discover"
	"gitlab.com/aquachain/aquachain/rlp"
	"verifharness/hx"
)

type identity struct {
	name string
	x, y *big.Int
}

func (i identity) id() (d discover.NodeID, ok bool) {
	if i.x.Sign() < 0 || i.y.Sign() < 0 || i.x.BitLen() > 256 || i.y.BitLen() > 256 {
		return d, false
	}
	xb, yb := i.x.Bytes(), i.y.Bytes()
	copy(d[32-len(xb):32], xb)
	copy(d[64-len(yb):], yb)
	return d, true
}

func identSection(run *hx.Run, rng *hx.Rng) {
	P := crypto.S256().Params().P
	bi := func(n int64) *big.Int { return big.NewInt(n) }
	add := func(a, b *big.Int) *big.Int { return new(big.Int).Add(a, b) }
	sub := func(a, b *big.Int) *big.Int { return new(big.Int).Sub(a, b) }
	// onCurve: y^2 = x^3 + 7 (mod P) on the coordinates reduced modulo P (what the field arithmetic of the node sees)
	onCurve := func(x, y *big.Int) bool {
		xr, yr := new(big.Int).Mod(x, P), new(big.Int).Mod(y, P)
		l := new(big.Int).Mul(yr, yr)
		l.Mod(l, P)
		r := new(big.Int).Mul(xr, xr)
		r.Mul(r, xr)
		r.Add(r, bi(7))
		r.Mod(r, P)
		return l.Cmp(r) == 0
	}
	yFor := func(x *big.Int) *big.Int { // a square root of x^3+7, or nil
		r := new(big.Int).Mul(x, x)
		r.Mul(r, x)
		r.Add(r, bi(7))
		r.Mod(r, P)
		return new(big.Int).ModSqrt(r, P)
	}
	max256 := sub(new(big.Int).Lsh(bi(1), 256), bi(1))
	G := crypto.S256().Params()
	var ids []identity
	put := func(name string, x, y *big.Int) {
		if x != nil && y != nil {
			ids = append(ids, identity{name, x, y})
		}
	}
	put("(0,0) point at infinity / all-zero ID", bi(0), bi(0))
	put("(1,0) order-two point of y^2=x^3-1", bi(1), bi(0))
	put("(0,1)", bi(0), bi(1))
	put("(1,1)", bi(1), bi(1))
	put("(0,P-1)", bi(0), sub(P, bi(1)))
	put("(P-1,0)", sub(P, bi(1)), bi(0))
	put("(P-1,1)", sub(P, bi(1)), bi(1))
	put("(P-1,P-1)", sub(P, bi(1)), sub(P, bi(1)))
	put("(P-1,sqrt)", sub(P, bi(1)), yFor(sub(P, bi(1))))
	put("(P,0) x = P", P, bi(0))
	put("(P,P)", P, P)
	put("(0,P) y = P", bi(0), P)
	put("(P+1,0)", add(P, bi(1)), bi(0))
	put("(2^256-1,2^256-1)", max256, max256)
	put("(2^256-1,0)", max256, bi(0))
	put("(0,2^256-1)", bi(0), max256)
	put("G", G.Gx, G.Gy)
	put("(Gx,P-Gy) = -G", G.Gx, sub(P, G.Gy))
	put("(Gx,Gy+1) valid x, wrong y", G.Gx, add(G.Gy, bi(1)))
	put("(Gx,Gy-1)", G.Gx, sub(G.Gy, bi(1)))
	put("(Gx,0)", G.Gx, bi(0))
	put("(Gx,Gx)", G.Gx, G.Gx)
	put("(Gy,Gx) swapped", G.Gy, G.Gx)
	put("(Gx+1,Gy)", add(G.Gx, bi(1)), G.Gy)
	put("(1,sqrt 8)", bi(1), yFor(bi(1)))
	if y1 := yFor(bi(1)); y1 != nil {
		put("(1,-sqrt 8)", bi(1), sub(P, y1))
		put("(1+P,sqrt 8) non-canonical x", add(P, bi(1)), y1)
		put("(1,sqrt 8 xor 1)", bi(1), new(big.Int).Xor(y1, bi(1)))
	}
	for x := int64(2); x < 12; x++ { // small x: with their root when one exists, and with y = 0 / 1
		put("(small x,sqrt)", bi(x), yFor(bi(x)))
		put("(small x,0)", bi(x), bi(0))
		put("(small x,1)", bi(x), bi(1))
	}
	nKeys, nRand := 6, 10
	if run.Thorough() {
		nKeys, nRand = 200, 300
	}
	for i := 0; i < nKeys; i++ { // real keys and near misses
		k := rawKey(rng).PubKey().ToECDSA()
		put("real key", k.X, k.Y)
		put("real key, y bit flipped", k.X, new(big.Int).Xor(k.Y, new(big.Int).Lsh(bi(1), uint(rng.Intn(256)))))
		put("real key, x bit flipped", new(big.Int).Xor(k.X, new(big.Int).Lsh(bi(1), uint(rng.Intn(256)))), k.Y)
		put("real key, -y", k.X, sub(P, k.Y))
		put("real key, halves swapped", k.Y, k.X)
	}
	for i := 0; i < nRand; i++ {
		x := new(big.Int).SetBytes(rng.Bytes(32))
		put("random x with its root", x, yFor(new(big.Int).Mod(x, P)))
		put("random pair", x, new(big.Int).SetBytes(rng.Bytes(32)))
	}

	listener := rawKey(rng)
	lpub := ecies.ImportECDSAPublic(listener.PubKey().ToECDSA())
	for _, it := range ids {
		id, ok := it.id()
		if !ok {
			continue
		}
		want := onCurve(it.x, it.y)
		canonical := it.x.Cmp(P) < 0 && it.y.Cmp(P) < 0
		in := "idv " + hx.Hex(id[:])
		full := map[string]string{"identity": it.name, "id": hx.Hex(id[:])}
		judge := func(what, out string) {
			run.Count("ident:" + what + ":" + map[bool]string{true: "oncurve", false: "offcurve"}[want] + ":" + out)
			switch {
			case len(out) >= 5 && out[:5] == "panic":
				run.Violate("panic", what+" "+it.name+": "+out, full, what+" panicked on identity "+it.name)
			case !want && out == "1":
				run.Violate("identity-accepted", what+" accepts an identity that is not a curve point: "+it.name, full,
					what+" accepted "+it.name+", which does not satisfy y^2 = x^3 + 7 (mod P); every secret derived with it is attacker-computable")
			case want && canonical && out == "0":
				run.Violate("valid-rejected", what+" rejects a curve point: "+it.name, full, what+" refused a canonical on-curve identity")
			}
		}
		// 1. NodeID.Pubkey
		run.Current(in)
		o := hx.Safe(func() string {
			if _, err := id.Pubkey(); err != nil {
				return "0"
			}
			return "1"
		})
		run.Case(in, o)
		judge("discover.NodeID.Pubkey", o)
		// 2. validateComplete (nodes learned from neighbors packets / enode URLs)
		o = hx.Safe(func() string {
			if err := discover.VerifValidateComplete(id); err != nil {
				return "0"
			}
			return "1"
		})
		run.Case(in, o)
		judge("discover.Node.validateComplete", o)

		// 3. RLPx responder: auth packet naming this identity, valid signature by a fresh ephemeral key
		eph := rawKey(rng)
		nonce := rng.Bytes(32)
		sig, err := crypto.Sign(crypto.Keccak256(rng.Bytes(32)), eph) // any 32-byte message: the responder cannot check it without the token
		if err != nil {
			continue
		}
		body, _ := rlp.EncodeToBytes([]interface{}{sig, id[:], nonce, uint(4)})
		body = append(body, make([]byte, 100+rng.Intn(100))...)
		prefix := make([]byte, 2)
		binary.BigEndian.PutUint16(prefix, uint16(len(body)+p2p.VerifEciesOverhead))
		ct, err := ecies.Encrypt(rand.Reader, lpub, body, nil, prefix)
		if err != nil {
			continue
		}
		pkt := append(prefix, ct...)
		ain := "auth " + hx.Hex(id[:]) + " 1 1"
		run.Current(ain)
		var got discover.NodeID
		o = hx.Guard(20*time.Second, func() string {
			a, b := net.Pipe()
			defer a.Close()
			defer b.Close()
			go func() {
				a.SetDeadline(time.Now().Add(15 * time.Second))
				a.Write(pkt)
				io.Copy(ioutil.Discard, a)
			}()
			rid, err := p2p.VerifDoEncHandshake(b, listener.ToECDSA())
			if err != nil {
				return "err"
			}
			got = rid
			return "ok"
		})
		run.Case(ain, o)
		ro := map[string]string{"ok": "1", "err": "0"}[o]
		if ro == "" {
			ro = o
		}
		judge("p2p responder doEncHandshake", ro)
		if o == "ok" && got != id {
			run.Violate("authentication", "responder reports another identity than the one named", full, "remote id mismatch")
		}
		if o == "hang" {
			run.Violate("hang", "p2p responder doEncHandshake "+it.name, full, "did not return")
		}
	}
}

package main

// Discovery bonding histories on a real udp + Table (in-memory node DB, recording connection): FINDNODE is an
// amplification vector, so it may only be served for a key that proved its endpoint by answering OUR ping with a pong
// carrying the right ReplyTok. Histories: ping then the node's ping-back fails / is answered with a wrong ReplyTok /
// succeeds, unsolicited pongs, other keys; then FINDNODE. Judged directly and against the bond model.

import (
	"fmt"
	"net"
	"strings"
	"time"

	"github.com/btcsuite/btcd/btcec/v2"
	"gitlab.com/aquachain/aquachain/crypto"
	"gitlab.com/aquachain/aquachain/p2p/discover"
	"verifharness/hx"
)

type bondActor struct {
	name string
	key  *btcec.PrivateKey
	id   discover.NodeID
	addr *net.UDPAddr
}

type bondWorld struct {
	nc     bool
	d      *discover.VerifDisc
	actors map[string]*bondActor
	pings  int // ping-backs expected so far
}

func sign(key *btcec.PrivateKey, sigdata []byte) []byte {
	sig, err := crypto.Sign(crypto.Keccak256(sigdata), key)
	if err != nil {
		panic(err)
	}
	body := append(append([]byte{}, sig...), sigdata...)
	return append(crypto.Keccak256(body), body...)
}

func newBondWorld(rng *hx.Rng, nc bool) (*bondWorld, error) {
	chain := uint64(61717561)
	if nc {
		chain = 1
	}
	d, err := discover.VerifNewDisc(rawKey(rng), chain)
	if err != nil {
		return nil, err
	}
	w := &bondWorld{nc: nc, d: d, actors: map[string]*bondActor{}}
	for i, n := range []string{"a", "b"} {
		k := rawKey(rng)
		w.actors[n] = &bondActor{n, k, discover.PubkeyID(k.PubKey().ToECDSA()), &net.UDPAddr{IP: net.IP{10, 0, 0, byte(20 + i)}, Port: 30303}}
	}
	return w, nil
}

func (w *bondWorld) packet(a *bondActor, kind byte, p *discover.VerifPkt) []byte {
	p.Kind = kind
	p.Expiration = uint64(time.Now().Unix()) + 3600
	pkt, _, err := discover.VerifEncodePacket(w.nc, a.key, discover.VerifTypeByte(w.nc, kind), p)
	if err != nil {
		panic(err)
	}
	return pkt
}

// run executes one history; returns the per-findnode results ("1" served / "0" refused) and a description of a problem.
func (w *bondWorld) run(history []string) (outs []string, problem string) {
	for _, ev := range history {
		f := strings.Split(ev, ":")
		a := w.actors[f[1]]
		switch f[0] {
		case "P": // ping from a; fate of the node's ping-back
			mode := map[string]string{"ok": "ok", "timeout": "timeout", "badtok": "timeout"}[f[2]]
			w.d.SetPingBack(mode)
			w.d.Sent()
			err := w.d.Inject(a.addr, w.packet(a, 'p', &discover.VerifPkt{Version: 4,
				From: discover.VerifEP{IP: a.addr.IP, UDP: 30303, TCP: 30303}, To: discover.VerifEP{IP: []byte{10, 9, 9, 9}, UDP: 30303, TCP: 30303}}))
			if err != nil {
				return outs, "ping refused: " + err.Error()
			}
			w.pings++
			if f[2] == "badtok" { // a pong signed by a with a ReplyTok that is not the hash of any ping of ours
				w.d.Inject(a.addr, w.packet(a, 'o', &discover.VerifPkt{To: discover.VerifEP{IP: []byte{10, 9, 9, 9}, UDP: 30303}, ReplyTok: make([]byte, 32)}))
			}
			if !w.d.WaitBondIdle(w.pings, 10*time.Second) {
				return outs, "bonding process did not finish"
			}
		case "O": // unsolicited pong
			w.d.Inject(a.addr, w.packet(a, 'o', &discover.VerifPkt{To: discover.VerifEP{IP: []byte{10, 9, 9, 9}, UDP: 30303}, ReplyTok: crypto.Keccak256([]byte(ev))}))
		case "F":
			w.d.Sent()
			var target discover.NodeID
			copy(target[:], crypto.Keccak256([]byte(ev)))
			err := w.d.Inject(a.addr, w.packet(a, 'f', &discover.VerifPkt{Target: target}))
			served := false
			for _, s := range w.d.Sent() {
				if discover.VerifKindOf(w.nc, s.Data) == 'n' {
					served = true
				}
			}
			switch {
			case served && err == nil:
				outs = append(outs, "1")
			case !served && discover.VerifIsUnknownNode(err):
				outs = append(outs, "0")
			default:
				outs = append(outs, "?")
				problem = fmt.Sprintf("findnode: neighbors sent=%v, handler error=%v", served, err)
			}
		}
	}
	return outs, problem
}

var bondHistories = [][]string{
	{"F:a"},
	{"P:a:timeout", "F:a"},
	{"P:a:badtok", "F:a"},
	{"P:a:timeout", "P:a:timeout", "F:a", "F:a"},
	{"O:a", "F:a"},
	{"P:a:ok", "F:a"}, // control: a verified pong creates the bond
	{"P:a:ok", "F:b"},
	{"P:a:ok", "P:b:timeout", "F:b", "F:a"},
	{"P:a:timeout", "F:a", "P:a:ok", "F:a"},
	{"P:b:badtok", "O:b", "F:b", "P:a:ok", "F:a", "F:b"},
}

// expectation computed here independently of the Lean model: served iff some earlier "P:<id>:ok"
func bondExpect(h []string) []string {
	ok := map[string]bool{}
	var outs []string
	for _, ev := range h {
		f := strings.Split(ev, ":")
		if f[0] == "P" && f[2] == "ok" {
			ok[f[1]] = true
		}
		if f[0] == "F" {
			outs = append(outs, map[bool]string{true: "1", false: "0"}[ok[f[1]]])
		}
	}
	return outs
}

func bondSection(run *hx.Run, rng *hx.Rng) {
	for _, nc := range []bool{false, true} {
		for _, h := range bondHistories {
			in := "bond " + strings.Join(h, ",")
			full := map[string]interface{}{"history": h, "netcompat": nc}
			run.Current(in)
			var outs []string
			var problem string
			o := hx.Guard(40*time.Second, func() string {
				w, err := newBondWorld(rng, nc)
				if err != nil {
					return "setup: " + err.Error()
				}
				defer w.d.Close()
				outs, problem = w.run(h)
				return "done"
			})
			if o != "done" {
				kind := "hang"
				if strings.HasPrefix(o, "panic") {
					kind = "panic"
				}
				run.Violate(kind, "discover bonding history "+strings.Join(h, ","), full, o)
				continue
			}
			got := strings.Join(outs, ",")
			run.Case(in, got)
			want := bondExpect(h)
			run.Count("bond:" + got)
			if problem != "" {
				run.Violate("bond-inconsistent", "discover bonding history "+strings.Join(h, ","), full, problem)
			}
			for i := range outs {
				if i < len(want) && outs[i] == "1" && want[i] == "0" {
					run.Violate("unbonded-findnode-served", "discover findnode served without a verified pong: "+strings.Join(h, ","), full,
						fmt.Sprintf("history %v: FINDNODE #%d was answered with NEIGHBORS although that key never answered one of our pings with a matching pong (results %v, expected %v)", h, i, outs, want))
				}
				if i < len(want) && outs[i] == "0" && want[i] == "1" {
					run.Violate("valid-rejected", "discover findnode refused after a verified pong: "+strings.Join(h, ","), full, fmt.Sprint(outs, want))
				}
			}
		}
	}
}

// realBondScenario: the same with the real ping-back on the wire and the real respTimeout (4 s); run with the stall set.
func realBondScenario(rng *hx.Rng, badPong bool) (func() string, func()) {
	w, err := newBondWorld(rng, false)
	if err != nil {
		return func() string { return "setup: " + err.Error() }, func() {}
	}
	return func() string {
		a := w.actors["a"]
		w.d.SetPingBack("real")
		if err := w.d.Inject(a.addr, w.packet(a, 'p', &discover.VerifPkt{Version: 4, From: discover.VerifEP{IP: a.addr.IP, UDP: 30303, TCP: 30303},
			To: discover.VerifEP{IP: []byte{10, 9, 9, 9}, UDP: 30303, TCP: 30303}})); err != nil {
			return "control-failed: ping refused: " + err.Error()
		}
		if badPong {
			time.Sleep(200 * time.Millisecond)
			w.d.Inject(a.addr, w.packet(a, 'o', &discover.VerifPkt{To: discover.VerifEP{IP: []byte{10, 9, 9, 9}, UDP: 30303}, ReplyTok: make([]byte, 32)}))
		}
		if !w.d.WaitBondIdle(1, 30*time.Second) {
			return "still-bonding"
		}
		outs, problem := w.run([]string{"F:a"})
		if problem != "" || len(outs) != 1 || outs[0] != "0" {
			return fmt.Sprintf("served: FINDNODE after a failed real ping-back gave %v %s", outs, problem)
		}
		return "err: findnode refused (unknown node)"
	}, func() { w.d.Close() }
}

package main

// aqua sub-protocol: the real ProtocolManager.handleMsg and peer.readStatus behind a stub transport, on valid payloads of
// every message code, every truncation, byte mutations, random bytes and the size-limit lattice.

import (
	"fmt"
	"strconv"

	"gitlab.com/aquachain/aquachain/aqua"
	"verifharness/hx"
)

var aquaCodes = []uint64{0x00, 0x01, 0x02, 0x03, 0x04, 0x05, 0x06, 0x07, 0x0d, 0x0e, 0x0f, 0x10}

func aquaSection(run *hx.Run, rng *hx.Rng) {
	v, err := aqua.VerifNewPM(9)
	if err != nil {
		run.Violate("harness-setup", "aqua.VerifNewPM", nil, "cannot build the protocol manager: "+err.Error())
		return
	}
	defer v.Close()
	pick := func(n int) int { return rng.Intn(n) }

	handle := func(tag string, code uint64, size uint32, payload []byte) string {
		dec := "0"
		if v.Decodes(code, size, payload) {
			dec = "1"
		}
		in := fmt.Sprintf("hmsg %d %d %s", code, size, dec)
		full := fmt.Sprintf("aqua.handleMsg code=%d size=%d payload=%s", code, size, hx.Hex(payload))
		run.Current(full)
		out := hx.Safe(func() string {
			err, _ := v.HandleMsg(code, size, payload)
			return aqua.VerifClass(err)
		})
		run.Case(in, out)
		run.Count("aqua:" + tag + ":" + out[:min(len(out), 12)])
		if len(out) >= 5 && out[:5] == "panic" {
			run.Violate("panic", "aqua.handleMsg code="+strconv.FormatUint(code, 10)+": "+out, full, "handleMsg panicked ("+tag+"): "+out)
		}
		if size > aqua.VerifProtocolMaxMsgSize && out != "toolarge" {
			run.Violate("size-limit", "aqua.handleMsg ProtocolMaxMsgSize", full, "message of declared size "+strconv.Itoa(int(size))+" was not refused: "+out)
		}
		return out
	}

	nValid, nMut, nRand := 4, 40, 30
	if run.Thorough() {
		nValid, nMut, nRand = 60, 2000, 2000
	}
	for _, code := range aquaCodes {
		for i := 0; i < nValid; i++ {
			p := v.ValidPayload(code, pick)
			o := handle("valid", code, uint32(len(p)), p)
			if code != 0 && o != "ok" {
				run.Violate("valid-rejected", "aqua.handleMsg rejects a well-formed message code="+strconv.FormatUint(code, 10), hx.Hex(p), "well-formed payload refused: "+o)
			}
			// every truncation (payload and declared size shrink together), capped for long payloads
			step := 1
			if len(p) > 400 && !run.Thorough() {
				step = len(p)/400 + 1
			}
			for n := 0; n < len(p); n += step {
				handle("trunc", code, uint32(n), p[:n])
			}
			// declared size smaller / larger than what arrives
			handle("size-skew", code, uint32(len(p)/2), p)
			handle("size-skew", code, uint32(len(p)+7), p)
		}
		for i := 0; i < nMut; i++ {
			p := v.ValidPayload(code, pick)
			if len(p) == 0 {
				continue
			}
			for j := rng.Intn(3) + 1; j > 0; j-- {
				k := rng.Intn(len(p))
				if rng.Bool() {
					p[k] ^= byte(rng.Intn(255) + 1)
				} else {
					p[k] = byte(rng.Pick([]int{0, 0x7f, 0x80, 0x81, 0xb7, 0xb8, 0xbf, 0xc0, 0xc1, 0xf7, 0xf8, 0xf9, 0xff}))
				}
			}
			handle("mutate", code, uint32(len(p)), p)
		}
		for i := 0; i < nRand; i++ {
			p := rng.Bytes(rng.Intn(120))
			handle("random", code, uint32(len(p)), p)
		}
		// size-limit lattice (declared size; the frame reader guarantees size = len, the handler checks the declared one)
		p := v.ValidPayload(code, pick)
		for _, s := range []uint32{aqua.VerifProtocolMaxMsgSize - 1, aqua.VerifProtocolMaxMsgSize, aqua.VerifProtocolMaxMsgSize + 1, 1<<24 - 1, 1 << 24, 1<<32 - 1} {
			handle("limit", code, s, p)
		}
	}
	// unknown codes
	for _, code := range []uint64{0x08, 0x09, 0x0c, 0x11, 0x12, 0xff, 1 << 32, ^uint64(0)} {
		handle("badcode", code, 3, []byte{0xc2, 1, 2})
	}
	// hostile GetBlockHeaders queries (amount / skip overflow lattices) — must return, bounded reply
	for _, amt := range []uint64{0, 1, 192, 193, 1 << 32, ^uint64(0)} {
		for _, skip := range []uint64{0, 1, 8, 1 << 32, ^uint64(0) - 1, ^uint64(0)} {
			for _, num := range []uint64{0, 1, 9, 10, ^uint64(0)} {
				for _, rev := range []byte{0x80, 0x01} {
					p := append([]byte{}, 0xc0)
					enc := func(x uint64) []byte {
						if x == 0 {
							return []byte{0x80}
						}
						if x < 128 {
							return []byte{byte(x)}
						}
						var b []byte
						for y := x; y > 0; y >>= 8 {
							b = append([]byte{byte(y)}, b...)
						}
						return append([]byte{0x80 + byte(len(b))}, b...)
					}
					body := append(append(append(enc(num), enc(amt)...), enc(skip)...), rev)
					p = append([]byte{0xc0 + byte(len(body))}, body...)
					handle("headers-lattice", 0x03, uint32(len(p)), p)
				}
			}
		}
	}

	// readStatus (the reading half of the aqua handshake)
	status := func(tag string, code uint64, size uint32, payload []byte) {
		full := fmt.Sprintf("aqua.readStatus code=%d size=%d payload=%s", code, size, hx.Hex(payload))
		run.Current(full)
		out := hx.Safe(func() string { return aqua.VerifClass(v.ReadStatus(code, size, payload)) })
		run.Count("aqua:status-" + tag + ":" + out[:min(len(out), 12)])
		if len(out) >= 5 && out[:5] == "panic" {
			run.Violate("panic", "aqua.readStatus: "+out, full, "readStatus panicked: "+out)
		}
		if size > aqua.VerifProtocolMaxMsgSize && code == 0 && out != "toolarge" {
			run.Violate("size-limit", "aqua.readStatus ProtocolMaxMsgSize", full, "oversized status not refused: "+out)
		}
		if tag == "valid" && out != "ok" {
			run.Violate("valid-rejected", "aqua.readStatus rejects a well-formed status", full, out)
		}
	}
	for i := 0; i < nValid*4; i++ {
		p := v.ValidPayload(0, pick)
		status("valid", 0, uint32(len(p)), p)
		for n := 0; n < len(p); n++ {
			status("trunc", 0, uint32(n), p[:n])
		}
		for k := 0; k < len(p); k++ {
			q := append([]byte{}, p...)
			q[k] ^= byte(1 << uint((k+i)%8))
			status("mutate", 0, uint32(len(q)), q)
		}
		status("limit", 0, aqua.VerifProtocolMaxMsgSize+1, p)
		status("code", uint64(1+rng.Intn(20)), uint32(len(p)), p)
	}
	for i := 0; i < nRand*4; i++ {
		p := rng.Bytes(rng.Intn(150))
		status("random", 0, uint32(len(p)), p)
	}
}

package main

// Silent and stalling peers: every blocking read (and write) on a connection-handler path gets a "the peer goes silent
// here" case. The handler must come back with an error within the protocol's own timeout for that stage plus slack;
// a handler that is still blocked then is a wedged connection handler.
//   aqua   ProtocolManager.handle / peer.Handshake      handshakeTimeout (5 s)
//   p2p    Server.SetupConn: doEncHandshake, doProtoHandshake, both directions   handshakeTimeout (5 s, fd deadline)
//   p2p    established peer (Peer.run readLoop through rlpx.ReadMsg)             frameReadTimeout (30 s)
// The scenarios sleep on timers, so they all run concurrently with the rest of the harness and are joined at the end.

import (
	"bytes"
	"fmt"
	"io"
	"io/ioutil"
	"net"
	"time"

	"github.com/btcsuite/btcd/btcec/v2"
	"gitlab.com/aquachain/aquachain/aqua"
	"gitlab.com/aquachain/aquachain/crypto"
	"gitlab.com/aquachain/aquachain/p2p"
	"gitlab.com/aquachain/aquachain/p2p/discover"
	"verifharness/hx"
)

const stallSlack = 12 * time.Second

type stallScenario struct {
	name    string
	bound   time.Duration            // the protocol's own timeout for the stage where the peer goes silent
	run     func() string            // runs the real handler; returns "ok" / "err: ..." when it comes back
	release func()                   // unblocks whatever is still waiting, after the judgement
	done    chan string
	start   time.Time
	took    time.Duration // set before done is signalled
}

type stallSet struct {
	sc []*stallScenario
}

func (s *stallSet) add(name string, bound time.Duration, run func() string, release func()) {
	s.sc = append(s.sc, &stallScenario{name: name, bound: bound, run: run, release: release, done: make(chan string, 1)})
}

func errStr(err error) string {
	if err == nil {
		return "ok"
	}
	return "err: " + hx.Safe(func() string { return err.Error() })
}

func rawKey(rng *hx.Rng) *btcec.PrivateKey {
	k, _ := btcec.PrivKeyFromBytes(crypto.Keccak256(rng.Bytes(32)))
	return k
}

// startStalls builds and launches all scenarios.
func startStalls(run *hx.Run, rng *hx.Rng) *stallSet {
	set := &stallSet{}

	// ---------------- aqua status handshake ----------------
	v, err := aqua.VerifNewPM(3)
	if err != nil {
		run.Violate("harness-setup", "aqua.VerifNewPM (stall)", nil, err.Error())
		return set
	}
	ht := aqua.VerifHandshakeTimeout
	msg := func(code uint64, p []byte) p2p.Msg {
		return p2p.Msg{Code: code, Size: uint32(len(p)), Payload: bytes.NewReader(p)}
	}
	{
		rw := aqua.VerifNewStallRW(true)
		set.add("aqua.handle: peer accepts our Status and never sends its own", ht, func() string { return errStr(v.Handle(rw, 1)) }, rw.Release)
	}
	{
		rw := aqua.VerifNewStallRW(true)
		set.add("aqua.handle: peer (other protocol version) never sends Status", ht, func() string { return errStr(v.Handle(rw, 2)) }, rw.Release)
	}
	{
		rw := aqua.VerifNewStallRW(false)
		set.add("aqua.handle: peer neither reads our Status nor sends its own", ht, func() string { return errStr(v.Handle(rw, 3)) }, rw.Release)
	}
	{
		rw := aqua.VerifNewStallRW(false)
		rw.In <- msg(0, v.StatusFor(4))
		set.add("aqua.handle: peer sends Status but never reads ours", ht, func() string { return errStr(v.Handle(rw, 4)) }, rw.Release)
	}
	{
		rw := aqua.VerifNewStallRW(true)
		late := ht + 3*time.Second
		timer := time.AfterFunc(late, func() {
			defer func() { recover() }()
			rw.In <- msg(0, v.StatusFor(5))
		})
		// judged by outcome: a Status that arrives after handshakeTimeout must not complete the handshake
		set.add("aqua.Handshake: Status arrives 3 s after handshakeTimeout", late, func() string { return errStr(v.Handshake(rw, 5)) },
			func() { timer.Stop(); rw.Release() })
	}
	{ // control: an honest peer is accepted and served until it hangs up
		rw := aqua.VerifNewStallRW(true)
		rw.In <- msg(0, v.StatusFor(6))
		time.AfterFunc(300*time.Millisecond, rw.Release)
		set.add("control aqua.handle: honest peer, then EOF", 0, func() string {
			err := v.Handle(rw, 6)
			if err == io.EOF {
				return "err: EOF after a completed handshake"
			}
			return "control-failed: " + errStr(err)
		}, func() {})
	}

	// ---------------- p2p connection setup ----------------
	newSrv := func() (*p2p.Server, *btcec.PrivateKey) {
		k := rawKey(rng)
		srv, err := p2p.VerifNewServer(k, 5)
		if err != nil {
			run.Violate("harness-setup", "p2p.VerifNewServer", nil, err.Error())
			return nil, nil
		}
		return srv, k
	}
	srv, srvKey := newSrv()
	if srv == nil {
		return set
	}
	srvID := discover.PubkeyID(srvKey.PubKey().ToECDSA())
	// a well-formed auth packet for this server (written by the real initiator into a recording connection)
	authPacket := func(prv *btcec.PrivateKey) []byte {
		c := newMemConn(nil)
		p2p.VerifInitiatorEncHandshake(c, prv.ToECDSA(), srvID)
		return append([]byte{}, c.w.Bytes()...)
	}
	drain := func(c net.Conn) { go io.Copy(ioutil.Discard, c) }
	inbound := func(name string, bound time.Duration, remote func(a net.Conn)) {
		a, b := net.Pipe()
		set.add(name, bound, func() string {
			go remote(a)
			return errStr(p2p.VerifSetupConn(srv, b, nil))
		}, func() { a.Close(); b.Close() })
	}
	pt := p2p.VerifHandshakeTimeout
	keys := make([]*btcec.PrivateKey, 8)
	for i := range keys {
		keys[i] = rawKey(rng)
	}
	garbage := rng.Bytes(20)
	pkHalf := authPacket(keys[0])
	inbound("p2p.SetupConn inbound: remote sends nothing", pt, func(a net.Conn) {})
	inbound("p2p.SetupConn inbound: remote sends half an auth packet and stops", pt, func(a net.Conn) {
		a.Write(pkHalf[:len(pkHalf)/2])
	})
	inbound("p2p.SetupConn inbound: remote sends the 2-byte EIP-8 size prefix only", pt, func(a net.Conn) {
		a.Write([]byte{0x01, 0x90})
	})
	inbound("p2p.SetupConn inbound: encryption handshake, then silence (remote keeps reading)", pt, func(a net.Conn) {
		if _, _, err := p2p.VerifEncHandshakeRW(a, keys[1].ToECDSA(), &srvID); err == nil {
			drain(a)
		}
	})
	inbound("p2p.SetupConn inbound: encryption handshake, then the remote neither reads nor writes", pt, func(a net.Conn) {
		p2p.VerifEncHandshakeRW(a, keys[2].ToECDSA(), &srvID)
	})
	inbound("p2p.SetupConn inbound: encryption handshake, then half a frame header", pt, func(a net.Conn) {
		if _, _, err := p2p.VerifEncHandshakeRW(a, keys[3].ToECDSA(), &srvID); err == nil {
			drain(a)
			a.Write(garbage)
		}
	})
	// dialed connections
	dialed := func(name string, remote func(a net.Conn)) {
		a, b := net.Pipe()
		rk := rawKey(rng)
		node, _ := discover.NewNode(discover.PubkeyID(rk.PubKey().ToECDSA()), net.IP{10, 0, 0, 9}, 30303, 30303)
		set.add(name, pt, func() string {
			go remote(a)
			return errStr(p2p.VerifSetupConn(srv, b, node))
		}, func() { a.Close(); b.Close() })
	}
	dialed("p2p.SetupConn dialed: remote never reads our auth packet", func(a net.Conn) {})
	dialed("p2p.SetupConn dialed: remote reads our auth packet and never answers", func(a net.Conn) { drain(a) })

	// ---------------- established peers that go silent (frameReadTimeout) ----------------
	established := func(name string, after func(a net.Conn, rw p2p.MsgReadWriter)) {
		s2, k2 := newSrv()
		if s2 == nil {
			return
		}
		id2 := discover.PubkeyID(k2.PubKey().ToECDSA())
		a, b := net.Pipe()
		remoteKey := rawKey(rng)
		set.add(name, p2p.VerifFrameReadTimeout, func() string {
			ready := make(chan error, 1)
			go func() {
				rw, _, err := p2p.VerifEncHandshakeRW(a, remoteKey.ToECDSA(), &id2)
				if err != nil {
					ready <- err
					return
				}
				// protocol handshake, version 4 (no snappy), matching capability; read the server's handshake too
				werr := make(chan error, 1)
				go func() {
					pay := p2p.VerifProtoHandshakePayload(4, "verif-remote", []p2p.Cap{{Name: "vrf", Version: 1}}, discover.PubkeyID(remoteKey.PubKey().ToECDSA()))
					werr <- rw.WriteMsg(p2p.Msg{Code: p2p.VerifHandshakeMsg, Size: uint32(len(pay)), Payload: bytes.NewReader(pay)})
				}()
				if m, err := rw.ReadMsg(); err != nil {
					ready <- err
					return
				} else {
					io.Copy(ioutil.Discard, m.Payload)
				}
				if err := <-werr; err != nil {
					ready <- err
					return
				}
				after(a, rw)
				ready <- nil
			}()
			if err := p2p.VerifSetupConn(s2, b, nil); err != nil {
				return "setup-failed: " + errStr(err)
			}
			if err := <-ready; err != nil {
				return "setup-failed(remote): " + errStr(err)
			}
			// the peer is running; wait until the server drops it
			t0 := time.Now()
			for s2.PeerCount() > 0 {
				time.Sleep(100 * time.Millisecond)
				if time.Since(t0) > p2p.VerifFrameReadTimeout+3*stallSlack {
					return "still-connected"
				}
			}
			return "err: peer dropped"
		}, func() { a.Close(); b.Close(); go s2.Stop() })
	}
	established("p2p peer loop: established peer goes completely silent", func(a net.Conn, rw p2p.MsgReadWriter) {})
	half := rng.Bytes(16)
	established("p2p peer loop: established peer sends half a frame header and stops", func(a net.Conn, rw p2p.MsgReadWriter) {
		a.SetWriteDeadline(time.Now().Add(2 * time.Second))
		a.Write(half)
	})

	// ---------------- discovery: the node's real ping-back goes unanswered / is answered with a wrong ReplyTok ----------------
	for _, bad := range []bool{false, true} {
		f, rel := realBondScenario(rng, bad)
		set.add(fmt.Sprintf("discover: ping, real ping-back unanswered (wrong-ReplyTok pong=%v), respTimeout, findnode must be refused", bad), 4*time.Second, f, rel)
	}

	for _, sc := range set.sc {
		sc := sc
		sc.start = time.Now()
		go func() {
			o := hx.Safe(sc.run)
			sc.took = time.Since(sc.start)
			sc.done <- o
		}()
	}
	return set
}

// join waits for every scenario up to its bound + slack and judges it. Called from the main goroutine.
func (s *stallSet) join(run *hx.Run) {
	for _, sc := range s.sc {
		deadline := sc.start.Add(sc.bound + stallSlack)
		var out string
		returned := false
		for !returned {
			run.Current("stall-join " + sc.name) // progress for the hang watchdog: this wait is bounded below
			wait := time.Until(deadline)
			if wait <= 0 {
				select { // it may have returned long ago while earlier scenarios were being joined
				case out = <-sc.done:
					returned = true
				default:
				}
				break
			}
			if wait > time.Second {
				wait = time.Second
			}
			select {
			case out = <-sc.done:
				returned = true
			case <-time.After(wait):
			}
		}
		elapsed := time.Since(sc.start)
		sig := "stall: " + sc.name
		in := map[string]interface{}{"scenario": sc.name, "stage_timeout_s": sc.bound.Seconds(), "slack_s": stallSlack.Seconds()}
		switch {
		case !returned:
			run.Violate("hang", sig, in, fmt.Sprintf("the connection handler is still blocked %.1fs after the peer went silent (the stage's own timeout is %.0fs): wedged",
				elapsed.Seconds(), sc.bound.Seconds()))
			run.Count("stall:wedged")
		case len(out) >= 5 && out[:5] == "panic":
			run.Violate("panic", sig+": "+out, in, "handler panicked: "+out)
			run.Count("stall:panic")
		case len(out) >= 14 && out[:14] == "control-failed":
			run.Violate("roundtrip", sig, in, "an honest peer was not served: "+out)
			run.Count("stall:control-failed")
		case len(out) >= 7 && out[:7] == "served:":
			run.Violate("unbonded-findnode-served", sig, in, out)
			run.Count("stall:findnode-served")
		case len(out) < 4 || out[:4] != "err:":
			run.Violate("stall-accepted", sig, in, "the handler did not end with an error for a peer that stalled: "+out)
			run.Count("stall:no-error")
		default:
			run.Count("stall:returned-with-error")
		}
		if returned {
			run.Notes["stall:"+sc.name] = fmt.Sprintf("%s after %.1fs", out, sc.took.Seconds())
		} else {
			run.Notes["stall:"+sc.name] = fmt.Sprintf("still blocked after %.1fs", elapsed.Seconds())
		}
		sc.release()
	}
}

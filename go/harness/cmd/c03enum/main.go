// c03enum: exhaustive small-scope enumeration of mixed InsertChain / InsertHeaderChain histories on the real chain, judged
// by the C03 clauses (evidence tool for findings and candidate fixes; not part of check.py).
package main

import (
	"flag"

	"verifharness/c0203"
)

func main() {
	n := flag.Int("len", 3, "maximal history length")
	flag.Parse()
	c0203.EnumMixed(*n)
}

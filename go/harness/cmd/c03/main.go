// Harness for property C03 (the canonical index describes exactly the chain that ends at the head); shared implementation
// in package c0203.
package main

import "verifharness/c0203"

func main() { c0203.Main("C03") }

// Harness for property C02 (the head is always a heaviest fully validated block); shared implementation in package c0203.
package main

import "verifharness/c0203"

func main() { c0203.Main("C02") }

package main

import (
	"fmt"
	"sort"
	"strings"

	"gitlab.com/aquachain/aquachain/common"
	"verifharness/chainx"
)

// ModelEnc renders database writes in the abstract vocabulary of the Lean model (lean/Driver/C04.lean): blocks are named
// by tree node ids, transactions by their index in the tree, trie nodes / code blobs by small integers in order of first
// appearance; a trie node carries the list of objects it references.
type ModelEnc struct {
	T      *chainx.Tree
	nodeID map[common.Hash]int
	txID   map[common.Hash]int
}

func NewModelEnc(t *chainx.Tree) *ModelEnc {
	m := &ModelEnc{T: t, nodeID: map[common.Hash]int{}, txID: map[common.Hash]int{}}
	for i, tx := range t.Txs {
		m.txID[tx.Hash()] = i
	}
	return m
}

func (m *ModelEnc) nid(h common.Hash) int {
	id, ok := m.nodeID[h]
	if !ok {
		id = len(m.nodeID) + 1
		m.nodeID[h] = id
	}
	return id
}

func (m *ModelEnc) bid(h common.Hash) int {
	if id, ok := m.T.ByHash[h]; ok {
		return id
	}
	return 900000 + int(h[0])<<8 + int(h[1]) // unknown block (never expected)
}

func dots(xs []int) string {
	ss := make([]string, len(xs))
	for i, x := range xs {
		ss[i] = fmt.Sprint(x)
	}
	return strings.Join(ss, ".")
}

func (m *ModelEnc) blk(id int) string {
	n := m.T.Nodes[id]
	parent := 0
	if n.Parent >= 0 {
		parent = n.Parent
	} else {
		parent = 999999 // the genesis block's parent is no block
	}
	return fmt.Sprintf("%d:%d:%d:%d:%s", id, parent, n.Block.NumberU64(), m.nid(n.Block.Root()), dots(n.TxIDs))
}

// Write renders one key write.
func (m *ModelEnc) Write(w W) string {
	ki := parseKey(w.Key)
	del := ""
	if w.Del {
		del = "-"
	}
	switch ki.Class {
	case KHeader:
		id := m.bid(ki.Hash)
		if w.Del || id >= len(m.T.Nodes) {
			return fmt.Sprintf("%sh%d", del, id)
		}
		return "h" + strings.Join(strings.Split(m.blk(id), ":")[:4], ":")
	case KTd:
		return fmt.Sprintf("%st%d", del, m.bid(ki.Hash))
	case KCanon:
		if w.Del {
			return fmt.Sprintf("-c%d", ki.Num)
		}
		return fmt.Sprintf("c%d:%d", ki.Num, m.bid(common.BytesToHash(w.Val)))
	case KBody:
		id := m.bid(ki.Hash)
		if w.Del || id >= len(m.T.Nodes) {
			return fmt.Sprintf("%sy%d", del, id)
		}
		return fmt.Sprintf("y%d:%s", id, dots(m.T.Nodes[id].TxIDs))
	case KReceipts:
		return fmt.Sprintf("%sr%d", del, m.bid(ki.Hash))
	case KHashNum:
		if w.Del {
			return fmt.Sprintf("-H%d", m.bid(ki.Hash))
		}
		var num uint64
		for _, b := range w.Val {
			num = num<<8 | uint64(b)
		}
		return fmt.Sprintf("H%d:%d", m.bid(ki.Hash), num)
	case KLookup:
		tx, ok := m.txID[ki.Hash]
		if !ok {
			tx = 800000
		}
		if w.Del {
			return fmt.Sprintf("-l%d", tx)
		}
		// TxLookupEntry = rlp[blockHash, blockIndex, index]: the block hash is the first 32-byte string
		var bh common.Hash
		if len(w.Val) >= 34 {
			copy(bh[:], w.Val[2:34])
		}
		return fmt.Sprintf("l%d:%d", tx, m.bid(bh))
	case KLastBlock:
		return fmt.Sprintf("B%d", m.bid(common.BytesToHash(w.Val)))
	case KLastHeader:
		return fmt.Sprintf("E%d", m.bid(common.BytesToHash(w.Val)))
	case KLastFast:
		return fmt.Sprintf("F%d", m.bid(common.BytesToHash(w.Val)))
	case KNode:
		if w.Del {
			return fmt.Sprintf("-n%d", m.nid(ki.Hash))
		}
		var cs []int
		for _, c := range nodeChildren(w.Val) {
			cs = append(cs, m.nid(c))
		}
		return fmt.Sprintf("n%d:%s", m.nid(ki.Hash), dots(cs))
	case KPreimage:
		return fmt.Sprintf("%ss%d", del, m.nid(ki.Hash))
	}
	return del + "o"
}

func (m *ModelEnc) Writes(ws []W, sorted bool) string {
	ss := make([]string, len(ws))
	for i, w := range ws {
		ss[i] = m.Write(w)
	}
	if sorted {
		sort.Strings(ss)
	}
	return strings.Join(ss, ",")
}

// Event renders an event with the ghost head AFTER it.
func (m *ModelEnc) Event(ev *Event, ghostAfter common.Hash) string {
	g := m.bid(ghostAfter)
	switch ev.Kind {
	case 'p':
		return fmt.Sprintf("p=%s@%d", m.Write(ev.Ws[0]), g)
	case 'd':
		return fmt.Sprintf("d=%s@%d", m.Write(ev.Ws[0]), g)
	}
	return fmt.Sprintf("b=%s@%d", m.Writes(ev.Ws, true), g)
}

func isTrieBatch(ev *Event) bool {
	if ev.Kind != 'b' {
		return false
	}
	for _, w := range ev.Ws {
		if c := parseKey(w.Key).Class; c != KNode && c != KPreimage || w.Del {
			return false
		}
	}
	return true
}

// Steps derives the inputs of the model's writers from the observed log: per imported block the block itself, the
// fork-choice outcome (did the block become head) and the batches flushed by trie.Database.Commit; everything else of the
// log is determined by the model and compared event by event.
func (m *ModelEnc) Steps(b *Built, log []Event) []string {
	var out []string
	byOp := map[int][]*Event{}
	for i := range log {
		byOp[log[i].Op] = append(byOp[log[i].Op], &log[i])
	}
	flushes := func(evs []*Event) (string, int) {
		s, n := "", 0
		for _, ev := range evs {
			if !isTrieBatch(ev) {
				break
			}
			s += "/" + m.Writes(ev.Ws, false)
			n++
		}
		return s, n
	}
	if len(byOp[-1]) > 0 {
		out = append(out, "O")
	}
	for oi, op := range b.Ops {
		evs := byOp[oi]
		switch op.Kind {
		case "reopen":
			out = append(out, "O")
		case "stop":
			s, _ := flushes(evs)
			out = append(out, "S"+s)
		case "sethead":
			out = append(out, fmt.Sprintf("Z/%d", op.N))
		case "import":
			for i := 0; i < len(evs); i++ {
				ev := evs[i]
				if ev.Kind != 'p' || parseKey(ev.Ws[0].Key).Class != KTd {
					continue
				}
				x := parseKey(ev.Ws[0].Key).Hash
				id := m.bid(x)
				if id >= len(m.T.Nodes) {
					continue
				}
				// the segment of this block
				j := i + 1
				for j < len(evs) && !(evs[j].Kind == 'p' && parseKey(evs[j].Ws[0].Key).Class == KTd) {
					j++
				}
				seg := evs[i+1 : j]
				if len(seg) >= 1 && seg[0].Kind == 'p' && parseKey(seg[0].Ws[0].Key).Class == KBody {
					out = append(out, "N/"+m.blk(id))
					continue
				}
				fl, _ := flushes(seg)
				canon := 0
				for _, e := range seg {
					for _, w := range e.Ws {
						if parseKey(w.Key).Class == KLastBlock && common.BytesToHash(w.Val) == x {
							canon = 1
						}
					}
				}
				out = append(out, fmt.Sprintf("I/%s/%d%s", m.blk(id), canon, fl))
			}
		}
	}
	return out
}

// InitWrites renders the initial image (after the genesis commit).
func (m *ModelEnc) InitWrites(im Image) string {
	keys := make([]string, 0, len(im))
	for k := range im {
		keys = append(keys, k)
	}
	sort.Strings(keys)
	var ss []string
	for _, k := range keys {
		ss = append(ss, m.Write(W{Key: []byte(k), Val: im[k]}))
	}
	return strings.Join(ss, " ")
}

// Harness for property C04 — "The chain database survives a crash at any write boundary".
//
// The REAL core.BlockChain runs on a recording wrapper around aquadb.MemDatabase (recdb.go). For histories of block
// trees with forks (chainx; incl. reorganisations to longer and to shorter-but-heavier branches, contracts with storage
// and code), under an archive and an eagerly flushing pruning configuration, with Stop / reopen in the middle:
//
//	(i)   the recorded log is checked directly (trie store closed at every prefix, children-first inside every batch) and
//	      emitted as ONE case line for the Lean model driver, which re-generates the log with the model of the writers
//	      (`writeLog`, per variant) and evaluates `recover` and `imageOK` on every prefix;
//	(ii)  EVERY prefix is materialised into a fresh MemDatabase, reopened with the real core.NewBlockChain under recover()
//	      and judged against the property directly (judge.go): no error/panic; head = last block made head (or, pruning,
//	      its nearest ancestor with complete state on disk); full state iteration; number index walk; re-import converges;
//	(iii) fault injection: every single Put/Delete/batch.Write of a history fails once, in a re-exec'd child process
//	      (fault.go); exit through log.Crit is a crash; a hang is a deadlock; the final image is judged as in (ii).
//
// A bad prefix is reported with a signature that names the WINDOW it lies in (window.go): the two windows the tree had
// before fix commits 141a732 / deec78d are recognised by name (records now "fixed": a reappearance is a VIOLATION like
// any other bad prefix).
package main

import (
	"encoding/json"
	"fmt"
	"os"
	"path/filepath"
	"strings"
	"time"

	"gitlab.com/aquachain/aquachain/aquadb"
	"gitlab.com/aquachain/aquachain/common"
	"gitlab.com/aquachain/aquachain/core"
	"verifharness/chainx"
	"verifharness/hx"
)

func main() {
	chainx.Quiet()
	if len(os.Args) > 1 && os.Args[1] == "-child" {
		childMain(os.Args[2:])
		return
	}
	run := hx.Start()
	defer run.Finish()
	run.Watch(300*time.Second, 8<<30, func(cur string) string { return "watchdog:" + strings.SplitN(cur, " ", 2)[0] })

	selfTestSchema(run)
	if run.Replay != "" {
		replay(run)
		return
	}
	scs := plan(run)
	t0 := time.Now()
	for _, sc := range scs {
		t1 := time.Now()
		enumerate(run, sc)
		run.Notes["wall_s:"+sc.Name] = fmt.Sprintf("%.1f", time.Since(t1).Seconds())
	}
	run.Notes["wall_s:enumeration"] = fmt.Sprintf("%.1f", time.Since(t0).Seconds())
	t0 = time.Now()
	faultRuns(run)
	run.Notes["wall_s:fault-injection"] = fmt.Sprintf("%.1f", time.Since(t0).Seconds())
	t0 = time.Now()
	trieFaultRuns(run)
	run.Notes["wall_s:trie-fault"] = fmt.Sprintf("%.1f", time.Since(t0).Seconds())
}

// plan: the scenarios of a run. All randomness derives from the run seed.
func plan(run *hx.Run) []Scenario {
	s := run.Seed * 1000
	var scs []Scenario
	add := func(sc Scenario) { sc.Name = fmt.Sprintf("%s%d", sc.Name, len(scs)); scs = append(scs, sc) }
	nsmall := 7
	if run.Thorough() {
		nsmall = 60
	}
	for k := 0; k < nsmall; k++ {
		u := uint64(k)
		add(Scenario{Name: "a", TreeSeed: s + u, N: 14 + k%5, Branchy: 25 + 10*(k%3), Cache: "archive", OrderSeed: s + u, SetHeadTo: -1, Contracts: k%2 == 1})
		add(Scenario{Name: "p", TreeSeed: s + u, N: 14 + k%5, Branchy: 25 + 10*(k%3), Cache: "pruning", OrderSeed: s + u + 7, SetHeadTo: -1, StopMid: true, Contracts: k%2 == 0})
	}
	// directed: a shorter-but-heavier branch overtakes a longer one (multi-block re-pointing, canonical entries deleted)
	add(Scenario{Name: "dirA", TreeSeed: s + 501, Directed: true, OldLen: 8, NewLen: 7, Cache: "archive", OrderSeed: s, SetHeadTo: -1, Contracts: true})
	add(Scenario{Name: "dirP", TreeSeed: s + 502, Directed: true, OldLen: 8, NewLen: 7, Cache: "pruning", OrderSeed: s, SetHeadTo: -1, StopMid: true})
	// big state on a pruning node: Stop commits > IdealBatchSize of dirty nodes, i.e. ONE trie.Database.Commit spanning
	// several batch flushes - every boundary between them is a crash point
	add(Scenario{Name: "big", TreeSeed: s + 801, N: 6, Linear: true, Fresh: 200, Cache: "pruning", OrderSeed: s, SetHeadTo: -1})
	// extended scope (informational): SetHead
	add(Scenario{Name: "seth", TreeSeed: s + 601, N: 12, Branchy: 20, Cache: "archive", OrderSeed: s, SetHeadTo: 3})
	if os.Getenv("C04_SETHEAD_EXTRA") != "" {
		// evidence runs for the (optional) SetHead reordering: more rewinds, both configurations, several targets
		for k := 0; k < 8; k++ {
			u := uint64(k)
			cache := "archive"
			if k%2 == 1 {
				cache = "pruning"
			}
			add(Scenario{Name: "sethX", TreeSeed: s + 610 + u, N: 12 + k, Branchy: 25, Cache: cache, OrderSeed: s + u, SetHeadTo: k % 5, Contracts: k%3 == 0})
		}
	}
	// long pruning chain: periodic trie flushes above height 128, three tries at Stop
	nlong := 136
	if run.Thorough() {
		nlong = 150
	}
	add(Scenario{Name: "long", TreeSeed: s + 701, N: nlong, Linear: true, Tail: 5, Cache: "pruning", OrderSeed: s, SetHeadTo: -1, StopMid: true, Contracts: true})
	if run.Thorough() {
		for k := 0; k < 6; k++ {
			u := uint64(k)
			add(Scenario{Name: "dirA", TreeSeed: s + 510 + u, Directed: true, OldLen: 8 + k, NewLen: 7 + (k+1)/2, Cache: "archive", OrderSeed: s + u, SetHeadTo: -1, Contracts: k%2 == 0})
			add(Scenario{Name: "dirP", TreeSeed: s + 520 + u, Directed: true, OldLen: 8 + k, NewLen: 7 + (k+1)/2, Cache: "pruning", OrderSeed: s + u, SetHeadTo: -1, StopMid: k%2 == 0})
		}
		add(Scenario{Name: "longA", TreeSeed: s + 702, N: 140, Linear: true, Tail: 6, Cache: "archive", OrderSeed: s, SetHeadTo: -1})
	}
	return scs
}

type replayInput struct {
	Scenario  *Scenario `json:"scenario"`
	FailWrite *int      `json:"fail_write"`
}

// replay re-runs the concrete input of a replay file: the history (all prefixes), the single injected write failure, or -
// for a finding about trie.Database.Commit - the trie fault runs.
func replay(run *hx.Run) {
	data, err := os.ReadFile(run.Replay)
	if err != nil {
		panic(err)
	}
	var rf struct {
		Input replayInput `json:"input"`
	}
	_ = json.Unmarshal(data, &rf)
	switch {
	case rf.Input.Scenario == nil:
		trieFaultRuns(run)
		enumerate(run, plan(run)[0]) // keeps the correspondence part of the check non-empty
	case rf.Input.FailWrite != nil:
		faultOne(run, *rf.Input.Scenario, *rf.Input.FailWrite)
		enumerate(run, plan(run)[0]) // keeps the correspondence part of the check non-empty
	default:
		enumerate(run, *rf.Input.Scenario)
	}
}

func faultOne(run *hx.Run, sc Scenario, failAt int) {
	dir := filepath.Join(run.OutDir, "fault")
	os.MkdirAll(dir, 0o755)
	b := sc.Build()
	ref := NewRecDB()
	if _, err := NewRunner(b, ref); err != nil {
		return
	}
	base := ImageOf(ref.inner)
	scJSON, _ := json.Marshal(sc)
	refHead, refTies := crashFreeHead(b)
	res := runChild(selfPath(), dir, fmt.Sprintf("%s-%d", sc.Name, failAt), []string{"chain", string(scJSON), fmt.Sprint(failAt)}, 150*time.Second)
	res.FailAt = failAt
	judgeFault(run, b, base, &res, refHead, refTies)
}

// selfTestSchema re-derives the key classes from the real Write* helpers: a schema change in the tree under test would
// silently blind the window classifier and the model rendering.
func selfTestSchema(run *hx.Run) {
	db := aquadb.NewMemDatabase()
	t := chainx.NewTree(chainx.Opts{ForkFree: true})
	g := t.Nodes[0].Block
	h, n := g.Hash(), g.NumberU64()
	probe := func(want KClass, f func()) {
		before := ImageOf(db)
		f()
		after := ImageOf(db)
		ok := false
		for k := range after {
			if _, had := before[k]; !had {
				if parseKey([]byte(k)).Class == want {
					ok = true
				} else if want != KHeader || parseKey([]byte(k)).Class != KHashNum {
					ok = false
					run.Violate("schema-drift", "schema:"+want.String(), want.String(), fmt.Sprintf("key %x written for class %s parses as %s", k, want, parseKey([]byte(k)).Class))
					return
				}
			}
		}
		if !ok {
			run.Violate("schema-drift", "schema:"+want.String(), want.String(), "no key of the expected class was written")
		}
		run.Count("schema-probe")
	}
	probe(KCanon, func() { core.WriteCanonicalHash(db, h, n) })
	probe(KHeader, func() { core.WriteHeader(db, g.Header()) })
	probe(KBody, func() { core.WriteBody(db, h, n, g.Body()) })
	probe(KTd, func() { core.WriteTd(db, h, n, g.Difficulty()) })
	probe(KReceipts, func() { core.WriteBlockReceipts(db, h, n, nil) })
	probe(KLastBlock, func() { core.WriteHeadBlockHash(db, h) })
	probe(KLastHeader, func() { core.WriteHeadHeaderHash(db, h) })
	probe(KLastFast, func() { core.WriteHeadFastBlockHash(db, h) })
}

// enumerate runs one scenario, checks its log, reopens every prefix and emits the model case.
func enumerate(run *hx.Run, sc Scenario) {
	run.Current("enumerate " + sc.String())
	b := sc.Build()
	db := NewRecDB()
	r, err := NewRunner(b, db)
	if err != nil {
		run.Violate("scenario-setup", "setup:"+sc.Name, sc, err.Error())
		return
	}
	base := ImageOf(db.inner)
	final := r.RunAll()
	log := db.Log
	for i, e := range r.OpErr {
		if e != "ok" {
			run.Count("op-" + b.Ops[i].Kind + "-" + strings.SplitN(e, ":", 2)[0])
		}
	}
	run.Count("scenario-" + sc.Cache)
	an := analyse(b, log, final)
	for k, v := range an.Counts {
		run.Hist[k] += v
	}

	// (i) direct discipline checks on the log: the trie store is closed at every prefix
	checkClosed(run, b, base, log)

	// (ii) every prefix
	j := NewJudge(b)
	j.RefHead, j.RefTies = crashFreeHead(b)
	im := base.Clone()
	toks := make([]string, 0, len(log)+1)
	refeedEvery := 1
	if len(log) > 400 && !run.Thorough() {
		refeedEvery = 9
	}
	for p := 0; p <= len(log); p++ {
		run.Current(fmt.Sprintf("enumerate %s prefix %d", sc.String(), p))
		ghost := final
		if p < len(log) {
			ghost = log[p].Head
		}
		inSetHead := p < len(log) && log[p].Op >= 0 && b.Ops[log[p].Op].Kind == "sethead"
		win := an.Window(p)
		refeed := p%refeedEvery == 0 || win != "" || an.NearFlush(p)
		v := j.Reopen(im, b.Tree.ByHash[ghost], !inSetHead, refeed)
		tok := "k" + fmt.Sprint(v.Head)
		switch v.Class {
		case "reopen-panic", "reopen-hang":
			tok = "P"
		case "reopen-error":
			tok = "E"
		}
		if v.OK {
			tok += "+"
			run.Count("prefix-ok")
			if inSetHead {
				run.Count("sethead-prefix-ok")
			}
		} else {
			tok += "-"
			if win == "" {
				win = "unclassified"
			}
			next := "end"
			if p < len(log) {
				next = describe(b, &log[p])
			}
			if inSetHead {
				// SetHead is not in the property's quantifier (import, reorganisation, shutdown): recorded, not judged
				run.Count("sethead-prefix-bad:" + v.Class)
			} else {
				sig := win + ":" + v.Class
				if win == "unclassified" {
					sig = fmt.Sprintf("unclassified:%s:%s:prefix%d", v.Class, sc.Name, p)
				}
				report(run, "crash-prefix", sig, map[string]interface{}{"scenario": sc, "prefix": p, "next_write": next},
					fmt.Sprintf("%s: crash before write #%d (%s): %s: %s", sc.Name, p, next, v.Class, v.Detail))
				run.Count("prefix-bad:" + win + ":" + v.Class)
			}
		}
		toks = append(toks, tok)
		if p < len(log) {
			im.Apply(&log[p])
		}
	}
	run.Hist["reopens"] += j.Reopens
	run.Hist["refeeds"] += j.Refeeds
	run.Hist["rewinds-to-flushed-ancestor"] += j.Rewinds
	run.Hist["events"] += len(log)

	// model case (skipped for very long logs: the model's association-list store is quadratic)
	if len(log) <= 420 {
		m := NewModelEnc(b.Tree)
		var evs []string
		for i := range log {
			after := final
			if i+1 < len(log) {
				after = log[i+1].Head
			}
			evs = append(evs, m.Event(&log[i], after))
		}
		// the per-prefix tokens of SetHead prefixes are judged by the weaker oracle; the model is strict there
		input := fmt.Sprintf("trace %d %d | %s | %s | %s", boolInt(sc.Cache == "archive"), 0, m.InitWrites(base),
			strings.Join(m.Steps(b, log), " "), strings.Join(evs, " "))
		goOut := fmt.Sprintf("V=%s L=ok R=%s", an.Variant(), strings.Join(toks, " "))
		if sc.SetHeadTo < 0 {
			run.Case(input, goOut)
		}
	} else {
		run.Count("model-case-skipped-long-log")
	}
}

// report forwards a direct judgement to the run; per signature only the first few carry full detail (the cap of the
// framework's violation list is global), every occurrence is counted in the histogram.
var perSig = map[string]int{}

func report(run *hx.Run, kind, sig string, input interface{}, detail string) {
	perSig[kind+"|"+sig]++
	if perSig[kind+"|"+sig] <= 5 {
		run.Violate(kind, sig, input, detail)
	} else {
		run.Count("violation(more):" + kind)
	}
}

func boolInt(b bool) int {
	if b {
		return 1
	}
	return 0
}

// checkClosed: at every prefix every stored trie node has all the objects it references stored (incremental).
func checkClosed(run *hx.Run, b *Built, base Image, log []Event) {
	present := map[common.Hash]bool{}
	for k := range base {
		if ki := parseKey([]byte(k)); ki.Class == KNode {
			present[ki.Hash] = true
		}
	}
	for k, v := range base {
		if ki := parseKey([]byte(k)); ki.Class == KNode {
			for _, c := range nodeChildren(v) {
				if !present[c] {
					run.Violate("trie-not-closed", "closed:genesis", b.Sc, "genesis image is not closed")
					return
				}
			}
		}
	}
	for i := range log {
		ev := &log[i]
		var added []W
		for _, w := range ev.Ws {
			if ki := parseKey(w.Key); ki.Class == KNode {
				if w.Del {
					run.Violate("trie-not-closed", "closed:node-deleted", map[string]interface{}{"scenario": b.Sc, "event": i}, "a trie node was deleted")
					return
				}
				present[ki.Hash] = true
				added = append(added, w)
			}
		}
		for _, w := range added {
			for _, c := range nodeChildren(w.Val) {
				if !present[c] {
					nh := parseKey(w.Key).Hash
					run.Violate("trie-not-closed", fmt.Sprintf("closed:%s", b.Sc.Cache), map[string]interface{}{"scenario": b.Sc, "event": i},
						fmt.Sprintf("%s: after write #%d node %x is stored without its child %x", b.Sc.Name, i, nh[:4], c[:4]))
					return
				}
			}
		}
		if len(added) > 0 {
			run.Count("trie-batches-closed")
		}
	}
}

func describe(b *Built, ev *Event) string {
	s := string(ev.Kind) + "{"
	for i, w := range ev.Ws {
		if i > 0 {
			s += ","
		}
		if i >= 6 {
			s += fmt.Sprintf("+%d", len(ev.Ws)-i)
			break
		}
		ki := parseKey(w.Key)
		s += ki.Class.String()
		switch ki.Class {
		case KHeader, KTd, KBody, KReceipts, KHashNum:
			s += fmt.Sprintf(":%d", b.Tree.ByHash[ki.Hash])
		case KCanon:
			s += fmt.Sprintf(":#%d", ki.Num)
		}
		if w.Del {
			s += "(del)"
		}
	}
	return s + fmt.Sprintf("} op%d", ev.Op)
}

// ---- (iii) fault injection ------------------------------------------------------------------------------------------------

func selfPath() string {
	p, err := os.Executable()
	if err != nil {
		return os.Args[0]
	}
	return p
}

func faultRuns(run *hx.Run) {
	dir := filepath.Join(run.OutDir, "fault")
	os.MkdirAll(dir, 0o755)
	s := run.Seed*1000 + 900
	scs := []Scenario{
		{Name: "fa", TreeSeed: s + 1, N: 8, Branchy: 40, Cache: "archive", OrderSeed: s, SetHeadTo: -1, Contracts: true},
		{Name: "fp", TreeSeed: s + 2, N: 7, Branchy: 40, Cache: "pruning", OrderSeed: s, SetHeadTo: -1, StopMid: true},
	}
	if run.Thorough() {
		for k := uint64(0); k < 6; k++ {
			scs = append(scs, Scenario{Name: fmt.Sprintf("fa%d", k), TreeSeed: s + 10 + k, N: 12, Branchy: 35, Cache: "archive", OrderSeed: s + k, SetHeadTo: -1, Contracts: k%2 == 0})
			scs = append(scs, Scenario{Name: fmt.Sprintf("fp%d", k), TreeSeed: s + 20 + k, N: 12, Branchy: 35, Cache: "pruning", OrderSeed: s + k, SetHeadTo: -1, StopMid: true})
		}
		scs = append(scs, Scenario{Name: "fdir", TreeSeed: s + 31, Directed: true, OldLen: 9, NewLen: 8, Cache: "archive", OrderSeed: s, SetHeadTo: -1})
		scs = append(scs, Scenario{Name: "fdirP", TreeSeed: s + 32, Directed: true, OldLen: 9, NewLen: 8, Cache: "pruning", OrderSeed: s + 1, SetHeadTo: -1})
	} else {
		// the failing write falls on the SIDE blocks of a branch that later overtakes (and on the overtaking import itself)
		scs = append(scs, Scenario{Name: "fdir", TreeSeed: s + 31, Directed: true, OldLen: 8, NewLen: 7, Cache: "archive", OrderSeed: s, SetHeadTo: -1})
		scs = append(scs, Scenario{Name: "fdirP", TreeSeed: s + 32, Directed: true, OldLen: 8, NewLen: 7, Cache: "pruning", OrderSeed: s + 1, SetHeadTo: -1})
	}
	self := selfPath()
	for _, sc := range scs {
		b := sc.Build()
		ref := NewRecDB()
		r, err := NewRunner(b, ref)
		if err != nil {
			continue
		}
		base := ImageOf(ref.inner)
		r.RunAll()
		n := len(ref.Log)
		scJSON, _ := json.Marshal(sc)
		refHead, refTies := crashFreeHead(b)
		// the directed history is long: in the quick tier only the writes from the first block of the competing branch on
		// are made to fail (its side blocks, the overtaking import with the multi-block reorganisation, Stop)
		first := 0
		if sc.Directed && !run.Thorough() {
			firstNew := len(b.Ops)
			for oi, op := range b.Ops {
				for _, id := range op.Ids {
					if id > 2+sc.OldLen && oi < firstNew {
						firstNew = oi
					}
				}
			}
			for first < n && ref.Log[first].Op < firstNew {
				first++
			}
		}
		results := make([]ChildResult, n-first)
		run.Current(fmt.Sprintf("fault %s (%d children)", sc.Name, n-first))
		parallel(n-first, 12, func(k int) {
			i := first + k
			results[k] = runChild(self, dir, fmt.Sprintf("%s-%d", sc.Name, i), []string{"chain", string(scJSON), fmt.Sprint(i)}, 150*time.Second)
			results[k].FailAt = i
			run.Current(fmt.Sprintf("fault %s child %d done", sc.Name, i))
		})
		for i := range results {
			res := &results[i]
			run.Current(fmt.Sprintf("fault %s judge %d", sc.Name, i))
			judgeFault(run, b, base, res, refHead, refTies)
		}
	}
}

func judgeFault(run *hx.Run, b *Built, base Image, res *ChildResult, refHead int, refTies map[int]bool) {
	sc := b.Sc
	what := "none"
	if res.FailedAt != nil {
		what = string(describeFailed(b, res.FailedAt))
	}
	input := map[string]interface{}{"scenario": sc, "fail_write": res.FailAt, "failed": what}
	switch {
	case res.Exit == exitDeadlock:
		run.Count("fault-outcome:deadlock")
		run.Violate("write-failure-deadlock", fmt.Sprintf("deadlock:%s:%s", sc.Name, classOfFailed(res.FailedAt)), input,
			fmt.Sprintf("%s: after failing write #%d (%s) the node hangs", sc.Name, res.FailAt, what))
		return
	case res.Exit == exitDone:
		run.Count("fault-outcome:continued")
	case res.Exit == exitCrit:
		run.Count("fault-outcome:exit(log.Crit)")
	case res.Exit == 2:
		// a Go panic in the node after the failed write (e.g. Stop dereferencing a canonical entry whose block was never
		// stored): the process dies, which is a crash like any other - judged by the reopened image below
		run.Count("fault-outcome:panic-exit")
	default:
		run.Count(fmt.Sprintf("fault-outcome:exit%d", res.Exit))
		run.Violate("harness-fault", fmt.Sprintf("child-exit%d", res.Exit), input, "fault child failed to run")
		return
	}
	if res.FailedAt == nil {
		run.Count("fault-not-reached")
	} else {
		run.Count("fault-at:" + classOfFailed(res.FailedAt))
	}
	// rebuild the image from the mirror; the last record carries the last in-memory head
	im := base.Clone()
	var applied []Event
	ghost := b.Tree.Nodes[0].Block.Hash()
	for i := range res.Records {
		rec := &res.Records[i]
		switch rec.Kind {
		case 'p', 'd', 'b':
			im.Apply(rec)
			applied = append(applied, *rec)
		}
		ghost = rec.Head
	}
	j := NewJudge(b)
	j.RefHead, j.RefTies = refHead, refTies
	gid, ok := b.Tree.ByHash[ghost]
	if !ok {
		gid = 0
	}
	v := j.Reopen(im, gid, true, true)
	run.Hist["reopens"] += j.Reopens
	if v.OK {
		run.Count("fault-reopen-ok")
		return
	}
	an := analyse(b, applied, ghost)
	win := an.Window(len(applied))
	sig := win + ":" + v.Class
	if win == "" {
		sig = fmt.Sprintf("unclassified-fault:%s:%s:write%d", v.Class, sc.Name, res.FailAt)
	}
	// one precise shape (known finding `failed-reexecution-keeps-block-without-receipts`): the failed write is the
	// block/receipt batch of WriteBlockWithState for a block that an earlier WriteBlockWithoutState had already stored
	// (header and body by single puts, no receipts), and exactly that block is the canonical block without receipts
	if v.Class == "canonical-receipts-missing" && res.FailedAt != nil && v.Node > 0 {
		x := b.Tree.Nodes[v.Node].Block.Hash()
		failedIsBatchOfX, storedStatelessBefore := false, false
		for _, w := range res.FailedAt.Ws {
			if ki := parseKey(w.Key); ki.Class == KReceipts && ki.Hash == x {
				failedIsBatchOfX = true
			}
		}
		for i := range applied {
			if applied[i].Kind == 'p' {
				if ki := parseKey(applied[i].Ws[0].Key); ki.Class == KHeader && ki.Hash == x {
					storedStatelessBefore = true
				}
			}
		}
		if failedIsBatchOfX && storedStatelessBefore {
			sig = "failed-reexecution-of-stateless-block:canonical-receipts-missing"
		}
	}
	report(run, "crash-prefix", sig, input, fmt.Sprintf("%s: after failing write #%d (%s; child exit %d) the reopened view: %s: %s", sc.Name, res.FailAt, what, res.Exit, v.Class, v.Detail))
	run.Count("fault-bad:" + sig)
}

func classOfFailed(ev *Event) string {
	if ev == nil {
		return "none"
	}
	if len(ev.Ws) == 0 {
		return "empty-batch"
	}
	k := "put"
	if ev.Ws[0].Del {
		k = "del"
	}
	if len(ev.Ws) > 1 || isTrieBatchKeys(ev) {
		k = "batch"
	}
	return k + "-" + parseKey(ev.Ws[0].Key).Class.String()
}

func isTrieBatchKeys(ev *Event) bool {
	c := parseKey(ev.Ws[0].Key).Class
	return c == KNode || c == KPreimage
}

func describeFailed(b *Built, ev *Event) string {
	e := *ev
	e.Kind = 'w'
	return describe(b, &e)
}

// trieFaultRuns: trie.Database.Commit with every one of its batch writes failing once (the preimage loop flushes because
// > IdealBatchSize of preimages are pending, as on a pruning node that has not committed for a while).
func trieFaultRuns(run *hx.Run) {
	dir := filepath.Join(run.OutDir, "fault")
	os.MkdirAll(dir, 0o755)
	self := selfPath()
	// reference: how many batch writes does the commit perform
	ref := runChild(self, dir, "trie-ref", []string{"trie", "-1"}, 60*time.Second)
	nw := 0
	for _, r := range ref.Records {
		if r.Kind == 'b' {
			nw++
		}
	}
	if ref.Exit != exitDone || nw < 3 {
		run.Violate("harness-fault", "trie-ref", nil, fmt.Sprintf("reference trie commit: exit %d, %d writes", ref.Exit, nw))
		return
	}
	// the reference run also yields a real multi-batch commit: the store must be closed after every one of its flushes
	present := map[common.Hash]bool{}
	for i, r := range ref.Records {
		if r.Kind != 'b' {
			continue
		}
		var added []W
		for _, w := range r.Ws {
			if ki := parseKey(w.Key); ki.Class == KNode {
				present[ki.Hash] = true
				added = append(added, w)
			}
		}
		for _, w := range added {
			for _, c := range nodeChildren(w.Val) {
				if !present[c] {
					run.Violate("trie-not-closed", "closed:trie-commit-multi-batch", map[string]interface{}{"record": i},
						fmt.Sprintf("trie.Database.Commit (multi-batch): after flush #%d a node is stored without its child %x", i, c[:4]))
					return
				}
			}
		}
		if len(added) > 0 {
			run.Count("trie-commit-flushes-closed")
		}
	}
	// the memory layer before the commit, for the Lean model (growth 4): every node of the first commit with its references
	nid := map[common.Hash]int{}
	id := func(h common.Hash) int {
		if _, ok := nid[h]; !ok {
			nid[h] = len(nid) + 1
		}
		return nid[h]
	}
	var memToks []string
	seenNode := map[common.Hash]bool{}
	rootID, firstCommit := 0, true
	for _, r := range ref.Records {
		if r.Kind == 'o' {
			firstCommit = false
		}
		if r.Kind != 'b' || !firstCommit {
			continue
		}
		for _, w := range r.Ws {
			if ki := parseKey(w.Key); ki.Class == KNode && !seenNode[ki.Hash] {
				seenNode[ki.Hash] = true
				var cs []int
				for _, c := range nodeChildren(w.Val) {
					cs = append(cs, id(c))
				}
				memToks = append(memToks, fmt.Sprintf("n%d:%s", id(ki.Hash), dots(cs)))
				rootID = id(ki.Hash) // post-order: the root is the last put
			}
		}
	}
	nw = (nw + 1) / 2 // the probe commits twice
	run.Hist["trie-commit-writes"] = nw
	results := make([]ChildResult, nw)
	parallel(nw, 4, func(i int) {
		results[i] = runChild(self, dir, fmt.Sprintf("trie-%d", i), []string{"trie", fmt.Sprint(i)}, 60*time.Second)
	})
	for i, res := range results {
		first := "node-or-final-flush"
		if res.FailedAt != nil && len(res.FailedAt.Ws) > 0 && parseKey(res.FailedAt.Ws[0].Key).Class == KPreimage && !containsNode(res.FailedAt) {
			first = "preimage-flush"
		}
		if res.Exit == exitDeadlock {
			run.Count("trie-fault:deadlock:" + first)
			run.Violate("write-failure-deadlock", "trie-commit:"+first, map[string]interface{}{"fail_batch_write": i},
				fmt.Sprintf("trie.Database.Commit: batch write #%d (%s) fails -> Commit returns the error, the next Lock on the trie database never returns", i, first))
		} else if res.Exit == exitDone {
			run.Count("trie-fault:live:" + first)
			// correspondence with the model of the memory layer: puts on disk before the failure, puts of the retry
			k, afterF := 0, false
			second := map[common.Hash]bool{}
			onDisk := map[common.Hash]bool{}
			closed := 1
			var all []W
			for _, r := range res.Records {
				if r.Kind == 'F' {
					afterF = true
				}
				if r.Kind != 'b' {
					continue
				}
				for _, w := range r.Ws {
					if ki := parseKey(w.Key); ki.Class == KNode {
						if afterF {
							second[ki.Hash] = true
						} else {
							k++
						}
						onDisk[ki.Hash] = true
						all = append(all, w)
					}
				}
			}
			for _, w := range all {
				for _, c := range nodeChildren(w.Val) {
					if !onDisk[c] {
						closed = 0
					}
				}
			}
			if afterF && len(memToks) > 0 {
				run.Case(fmt.Sprintf("triemem %d 64 %d | %s", rootID, k, strings.Join(memToks, " ")),
					fmt.Sprintf("closed=%d second=%d fuelok=1", closed, len(second)))
				run.Count("trie-mem-model-case")
			}
		} else {
			run.Violate("harness-fault", fmt.Sprintf("trie-child-exit%d", res.Exit), i, "trie fault child failed")
		}
	}
}

func containsNode(ev *Event) bool {
	for _, w := range ev.Ws {
		if parseKey(w.Key).Class == KNode {
			return true
		}
	}
	return false
}

package main

import (
	"fmt"
	"math/big"
	"strings"
	"time"

	"gitlab.com/aquachain/aquachain/aquadb"
	"gitlab.com/aquachain/aquachain/common"
	"gitlab.com/aquachain/aquachain/core"
	"gitlab.com/aquachain/aquachain/core/state"
	"verifharness/chainx"
)

// ---- direct Spec judgement of one on-disk image (RecoverOK) ---------------------------------------------------------------

// stateComplete walks the whole state at root on a raw database: account trie, every storage trie, every code blob.
func stateComplete(db aquadb.Database, root common.Hash) (nodes int, err error) {
	defer func() {
		if e := recover(); e != nil {
			err = fmt.Errorf("panic: %v", e)
		}
	}()
	sdb, err := state.New(root, state.NewDatabase(db))
	if err != nil {
		return 0, err
	}
	it := state.NewNodeIterator(sdb)
	for it.Next() {
		nodes++
	}
	return nodes, it.Error
}

// Verdict of one reopen.
type Verdict struct {
	OK     bool
	Class  string // short failure class (stable; part of the signature)
	Detail string
	Head   int // node id of the exposed head (-1 unknown)
	Node   int // node id of the block the failure is about (ancestor checks), 0 otherwise
}

type Judge struct {
	T       *chainx.Tree
	Sc      Scenario
	RefHead int // head of the crash-free run over all blocks
	RefTies map[int]bool
	Ops     []ScOp
	// statistics
	Reopens, Refeeds, Rewinds int
	completeCache           map[common.Hash]bool
}

func NewJudge(b *Built) *Judge {
	j := &Judge{T: b.Tree, Sc: b.Sc, Ops: b.Ops, completeCache: map[common.Hash]bool{}}
	return j
}

// complete reports whether the whole state of node id is on disk in image db (positive answers are cached per image
// generation by the caller through resetCache when nodes can disappear - they never do: trie nodes are never deleted).
func (j *Judge) complete(db aquadb.Database, id int) bool {
	root := j.T.Nodes[id].Block.Root()
	if j.completeCache[root] {
		return true
	}
	_, err := stateComplete(db, root)
	if err == nil {
		j.completeCache[root] = true
	}
	return err == nil
}

// expectedHead: the last block made head (ghost) or, when its state is not completely on disk, its nearest ancestor whose
// state is. On an archive node no rewind is allowed.
func (j *Judge) expectedHead(db aquadb.Database, ghost int) (int, bool) {
	id := ghost
	for id >= 0 {
		if j.complete(db, id) {
			return id, id != ghost
		}
		id = j.T.Nodes[id].Parent
	}
	return -1, true
}

// Reopen opens the REAL chain on a copy of the image and judges RecoverOK. ghost is the node id of the last block the
// node had made its head; strict=false (SetHead prefixes) only requires a consistent view whose head is an ancestor of ghost.
func (j *Judge) Reopen(im Image, ghost int, strict bool, refeed bool) (v Verdict) {
	j.Reopens++
	db := im.Mem()
	type res struct {
		bc  *core.BlockChain
		err error
		pan string
	}
	ch := make(chan res, 1)
	go func() {
		defer func() {
			if e := recover(); e != nil {
				ch <- res{pan: fmt.Sprint(e)}
			}
		}()
		bc, err := openChain(db, j.Sc.cacheConfig(), j.T)
		ch <- res{bc: bc, err: err}
	}()
	var r res
	select {
	case r = <-ch:
	case <-time.After(60 * time.Second):
		return Verdict{Class: "reopen-hang", Detail: "NewBlockChain did not return within 60s", Head: -1}
	}
	if r.pan != "" {
		return Verdict{Class: "reopen-panic", Detail: trim(r.pan), Head: -1}
	}
	if r.err != nil {
		return Verdict{Class: "reopen-error", Detail: trim(r.err.Error()), Head: -1}
	}
	bc := r.bc
	defer func() {
		// Stop of the reopened node must not panic either (it walks the number index on a pruning node)
		defer func() {
			if e := recover(); e != nil {
				if v.OK {
					v = Verdict{Class: "stop-panic", Detail: trim(fmt.Sprint(e)), Head: v.Head}
				} else {
					v.Detail += " [+stop-panic]"
				}
			}
		}()
		bc.Stop()
	}()
	head := bc.CurrentBlock()
	hid, ok := j.T.ByHash[head.Hash()]
	if !ok {
		return Verdict{Class: "head-unknown", Detail: "head is not a block of the history", Head: -1}
	}
	// head = last block made head, or (pruning) its nearest ancestor with flushed state
	raw := im.Mem()
	want, rewound := j.expectedHead(raw, ghost)
	if rewound {
		j.Rewinds++
	}
	if strict {
		if want != hid {
			return Verdict{Class: "head-mismatch", Detail: fmt.Sprintf("head=#%d(node %d) want node %d (last head made: node %d)", head.NumberU64(), hid, want, ghost), Head: hid}
		}
		if j.Sc.Cache == "archive" && rewound {
			return Verdict{Class: "archive-head-state-missing", Detail: fmt.Sprintf("state of last head node %d not on disk", ghost), Head: hid}
		}
	} else {
		// SetHead (extended scope): some ancestor-or-self of the previous head
		if a := j.T.Ancestor(ghost, head.NumberU64()); a != hid {
			return Verdict{Class: "head-not-ancestor", Detail: fmt.Sprintf("head node %d is not an ancestor of node %d", hid, ghost), Head: hid}
		}
	}
	// complete state at the head root, through the reopened node's own database
	if _, err := stateComplete(db, head.Root()); err != nil {
		return Verdict{Class: "state-incomplete", Detail: trim(err.Error()), Head: hid}
	}
	if st, err := bc.State(); err != nil || st == nil {
		return Verdict{Class: "state-unreadable", Detail: fmt.Sprint(err), Head: hid}
	}
	// number index agrees with the ancestry of the head back to genesis; blocks readable
	for id := hid; id >= 0; id = j.T.Nodes[id].Parent {
		blk := j.T.Nodes[id].Block
		if got := core.GetCanonicalHash(db, blk.NumberU64()); got != blk.Hash() {
			return Verdict{Class: "index-disagrees", Detail: fmt.Sprintf("canonical #%d = %x.., ancestor of head is node %d", blk.NumberU64(), got[:4], id), Head: hid}
		}
		if b := bc.GetBlockByNumber(blk.NumberU64()); b == nil || b.Hash() != blk.Hash() {
			return Verdict{Class: "ancestor-unreadable", Detail: fmt.Sprintf("GetBlockByNumber(%d) of the indexed hash %x.. (node %d) is nil: the block is not in the database", blk.NumberU64(), blk.Hash().Bytes()[:4], id), Head: hid}
		}
		// header, body, receipts and total difficulty of every canonical block, straight from the database
		n, h := blk.NumberU64(), blk.Hash()
		switch {
		case core.GetHeaderNoVersion(db, h, n) == nil:
			return Verdict{Class: "ancestor-incomplete", Detail: fmt.Sprintf("header of canonical #%d (node %d) missing", n, id), Head: hid}
		case core.GetBodyNoVersion(db, h, n) == nil:
			return Verdict{Class: "ancestor-incomplete", Detail: fmt.Sprintf("body of canonical #%d (node %d) missing", n, id), Head: hid}
		case core.GetTd(db, h, n) == nil:
			return Verdict{Class: "ancestor-incomplete", Detail: fmt.Sprintf("total difficulty of canonical #%d (node %d) missing", n, id), Head: hid}
		case n > 0 && core.GetBlockReceipts(db, h, n) == nil && len(blk.Transactions()) > 0:
			return Verdict{Class: "canonical-receipts-missing", Detail: fmt.Sprintf("receipts of canonical #%d (node %d) missing", n, id), Head: hid, Node: id}
		}
	}
	if !refeed {
		return Verdict{OK: true, Head: hid}
	}
	// feeding the original blocks again converges to the crash-free head
	j.Refeeds++
	var ferr string
	fed := make(chan string, 1)
	go func() {
		defer func() {
			if e := recover(); e != nil {
				fed <- "panic: " + fmt.Sprint(e)
			}
		}()
		for _, op := range j.Ops {
			if op.Kind != "import" {
				continue
			}
			if _, err := bc.InsertChain(j.T.Blocks(op.Ids)); err != nil {
				fed <- fmt.Sprintf("InsertChain%v: %v", op.Ids, err)
				return
			}
		}
		fed <- ""
	}()
	select {
	case ferr = <-fed:
	case <-time.After(120 * time.Second):
		return Verdict{Class: "refeed-hang", Detail: "re-import did not finish within 120s", Head: hid}
	}
	if ferr != "" {
		return Verdict{Class: "refeed-error", Detail: trim(ferr), Head: hid}
	}
	fh, ok := j.T.ByHash[bc.CurrentBlock().Hash()]
	if !ok || (fh != j.RefHead && !j.RefTies[fh]) {
		return Verdict{Class: "refeed-diverges", Detail: fmt.Sprintf("after re-import head=node %d td=%v, crash-free head=node %d td=%v (reopened at node %d)", fh, j.td(fh), j.RefHead, j.td(j.RefHead), hid), Head: hid}
	}
	if _, err := stateComplete(db, bc.CurrentBlock().Root()); err != nil && j.Sc.Cache == "archive" {
		return Verdict{Class: "refeed-state-incomplete", Detail: trim(err.Error()), Head: hid}
	}
	for id := fh; id >= 0; id = j.T.Nodes[id].Parent {
		blk := j.T.Nodes[id].Block
		if got := core.GetCanonicalHash(db, blk.NumberU64()); got != blk.Hash() {
			return Verdict{Class: "refeed-index-disagrees", Detail: fmt.Sprintf("after re-import canonical #%d = %x.., ancestor of head node %d is node %d (reopened at node %d)", blk.NumberU64(), got[:4], fh, id, hid), Head: hid}
		}
	}
	return Verdict{OK: true, Head: hid}
}

func (j *Judge) td(id int) *big.Int {
	if id < 0 {
		return nil
	}
	return j.T.Td(id)
}

func trim(s string) string {
	s = strings.ReplaceAll(s, "\n", " ")
	if len(s) > 160 {
		s = s[:160]
	}
	return s
}

// crashFreeHead imports every block of the scenario in the original order on a plain archive chain.
func crashFreeHead(b *Built) (int, map[int]bool) {
	bc, _ := b.Tree.NewChain(&core.CacheConfig{Disabled: true})
	defer bc.Stop()
	for _, op := range b.Ops {
		if op.Kind == "import" {
			bc.InsertChain(b.Tree.Blocks(op.Ids))
		}
	}
	head := b.Tree.ByHash[bc.CurrentBlock().Hash()]
	// equal-total-difficulty blocks are split by a coin flip in the code: any of them is an admissible crash-free head
	ties := map[int]bool{}
	td := b.Tree.Td(head)
	for _, n := range b.Tree.Nodes {
		if n.ID != head && b.Tree.Td(n.ID).Cmp(td) == 0 {
			ties[n.ID] = true
		}
	}
	return head, ties
}

package main

import (
	"strings"

	"gitlab.com/aquachain/aquachain/common"
)

// Analysis of a recorded log: per prefix the head pointer and whether the named block's header is stored, the import
// segments (one per `put td`), statistics, and the classification of a bad prefix into a WINDOW.
//
// Windows the tree had BEFORE fix commits 141a732 / deec78d; kept so that a regression is reported with a signature that
// names the window (each is one contiguous stretch of writes inside WriteBlockWithState → reorg → insert):
//
//	head-before-batch : LastBlock names the INCOMING block of a reorganising import and that block's header is not stored
//	                    (reorg → insert re-pointed the head markers before WriteBlockWithState flushed the block's batch)
//	canon-before-head : inside a reorganising import the most recent write is a single canonical-number put at or below the
//	                    head's height naming a block that is not the head's ancestor (insert wrote the number, not yet LastBlock)
type Analysis struct {
	b         *Built
	log       []Event
	lastBlock []common.Hash // lastBlock[p]: LastBlock after the first p events
	headGone  []bool        // header of lastBlock[p] not stored after p events
	trieEv    []bool
	tdAt      []int // tdAt[p]: index of the most recent `put td` among the first p events (-1: none)
	lbSetAt   []int // lbSetAt[p]: index of the event that last wrote LastBlock among the first p events (-1: none)
	Counts    map[string]int
	bf, at    int // -1 unknown, 0, 1
}

func analyse(b *Built, log []Event, final common.Hash) *Analysis {
	a := &Analysis{b: b, log: log, Counts: map[string]int{}, bf: -1, at: -1}
	t := b.Tree
	hdr := map[common.Hash]bool{t.Nodes[0].Block.Hash(): true}
	lb := t.Nodes[0].Block.Hash()
	a.lastBlock = append(a.lastBlock, lb)
	a.headGone = append(a.headGone, false)
	a.tdAt = append(a.tdAt, -1)
	a.lbSetAt = append(a.lbSetAt, -1)
	lastTd, lastLB := -1, -1
	for i := range log {
		ev := &log[i]
		if ev.Kind == 'p' && parseKey(ev.Ws[0].Key).Class == KTd {
			lastTd = i
		}
		a.tdAt = append(a.tdAt, lastTd)
		a.trieEv = append(a.trieEv, isTrieBatch(ev) && len(ev.Ws) > 0)
		for _, w := range ev.Ws {
			ki := parseKey(w.Key)
			a.Counts["write:"+ki.Class.String()]++
			switch ki.Class {
			case KHeader:
				hdr[ki.Hash] = !w.Del
			case KLastBlock:
				lb = common.BytesToHash(w.Val)
				lastLB = i
				if ev.Kind == 'b' {
					a.at = 1
				} else if a.at != 1 {
					a.at = 0
				}
			}
		}
		a.Counts["event:"+string(ev.Kind)]++
		a.lastBlock = append(a.lastBlock, lb)
		a.headGone = append(a.headGone, !hdr[lb])
		a.lbSetAt = append(a.lbSetAt, lastLB)
	}
	// a run of >= 3 consecutive non-empty trie batches: one Commit that was cut by IdealBatchSize (Stop commits at most
	// three tries, the later ones mostly empty)
	runLen := 0
	for i := range a.trieEv {
		if a.trieEv[i] && len(log[i].Ws) > 100 {
			runLen++
			if runLen == 2 {
				a.Counts["trie-commit-spanning-several-flushes"]++
			}
		} else {
			runLen = 0
		}
	}
	// import segments
	for i := 0; i < len(log); i++ {
		ev := &log[i]
		if ev.Kind != 'p' || parseKey(ev.Ws[0].Key).Class != KTd {
			continue
		}
		x := parseKey(ev.Ws[0].Key).Hash
		id, ok := t.ByHash[x]
		if !ok {
			continue
		}
		j := i + 1
		for j < len(log) && log[j].Op == ev.Op && !(log[j].Kind == 'p' && parseKey(log[j].Ws[0].Key).Class == KTd) {
			j++
		}
		headBefore := ev.Head
		hdrAt, lbAt, nLB, nCanonDel := -1, -1, 0, 0
		noState := false
		for k := i + 1; k < j; k++ {
			for _, w := range log[k].Ws {
				ki := parseKey(w.Key)
				switch {
				case ki.Class == KHeader && ki.Hash == x && hdrAt < 0:
					hdrAt = k
					if log[k].Kind == 'p' {
						noState = true
					}
				case ki.Class == KLastBlock:
					nLB++
					if common.BytesToHash(w.Val) == x && lbAt < 0 {
						lbAt = k
					}
				case ki.Class == KCanon && w.Del:
					nCanonDel++
				}
			}
		}
		blk := t.Nodes[id].Block
		switch {
		case noState:
			a.Counts["import:side-without-state"]++
		case lbAt < 0:
			a.Counts["import:side"]++
		case blk.ParentHash() == headBefore:
			a.Counts["import:extends-head"]++
		default:
			a.Counts["import:reorg"]++
			old := t.Nodes[t.ByHash[headBefore]].Block
			switch {
			case blk.NumberU64() < old.NumberU64():
				a.Counts["reorg:to-shorter-heavier"]++
			case blk.NumberU64() == old.NumberU64():
				a.Counts["reorg:equal-height"]++
			default:
				a.Counts["reorg:to-longer"]++
			}
			if nLB >= 3 { // re-pointed stored side blocks + the incoming block + the final insert
				a.Counts["reorg:multi-block-repoint"]++
			}
			if nCanonDel > 0 {
				a.Counts["reorg:canonical-entries-deleted"]++
			}
			if hdrAt >= 0 {
				if hdrAt < lbAt {
					a.bf = 1
				} else if a.bf != 1 {
					a.bf = 0
				}
			}
		}
	}
	return a
}

// Variant: the writer variants of the Lean model that are consistent with the observed ordering.
func (a *Analysis) Variant() string {
	var out []string
	for _, v := range []struct {
		name   string
		bf, at int
	}{{"preFix", 0, 0}, {"batchFirstOnly", 1, 0}, {"atomicInsertOnly", 0, 1}, {"head", 1, 1}} {
		if (a.bf < 0 || a.bf == v.bf) && (a.at < 0 || a.at == v.at) {
			out = append(out, v.name)
		}
	}
	return strings.Join(out, "+")
}

// Window names the known window the image after the first p events lies in ("" = none).
func (a *Analysis) Window(p int) string {
	if p < 0 || p >= len(a.lastBlock) {
		return ""
	}
	// both windows exist only inside an import that reorganises: the block being written (most recent `put td`) does
	// not extend the block that was head when its import began
	t := a.b.Tree
	inReorg, incoming := false, common.Hash{}
	if k := a.tdAt[p]; k >= 0 {
		incoming = parseKey(a.log[k].Ws[0].Key).Hash
		if id, ok := t.ByHash[incoming]; ok && t.Nodes[id].Block.ParentHash() != a.log[k].Head {
			inReorg = true
		}
	}
	if a.headGone[p] {
		// which import wrote this head marker? (after an injected failure the node may have gone on importing)
		if w := a.lbSetAt[p]; w >= 0 {
			if k := a.tdAt[w+1]; k >= 0 {
				x := parseKey(a.log[k].Ws[0].Key).Hash
				if id, ok := t.ByHash[x]; ok && x == a.lastBlock[p] && t.Nodes[id].Block.ParentHash() != a.log[k].Head {
					return "head-before-batch"
				}
			}
		}
		return "head-names-missing-block"
	}
	if p >= 1 && inReorg {
		ev := &a.log[p-1]
		if ev.Kind == 'p' {
			if ki := parseKey(ev.Ws[0].Key); ki.Class == KCanon {
				if hid, ok := t.ByHash[a.lastBlock[p]]; ok && ki.Num <= t.Nodes[hid].Block.NumberU64() {
					named := common.BytesToHash(ev.Ws[0].Val)
					if anc := t.Ancestor(hid, ki.Num); anc < 0 || t.Nodes[anc].Block.Hash() != named {
						return "canon-before-head"
					}
				}
			}
		}
	}
	return ""
}

// NearFlush: prefixes around trie flushes and at both ends of a long log always get the full (re-import) judgement.
func (a *Analysis) NearFlush(p int) bool {
	if p < 12 || p+40 > len(a.log) {
		return true
	}
	for k := p - 2; k <= p+1; k++ {
		if k >= 0 && k < len(a.trieEv) && a.trieEv[k] {
			return true
		}
	}
	return false
}

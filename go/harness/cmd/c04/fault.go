package main

import (
	"encoding/json"
	"fmt"
	"os"
	"os/exec"
	"path/filepath"
	"strconv"
	"sync"
	"time"

	"gitlab.com/aquachain/aquachain/common"
	"gitlab.com/aquachain/aquachain/trie"
)

// ---- child process: one history with ONE failing write ------------------------------------------------------------------
//
// Several failing writes end in log.Crit -> os.Exit(1); a leaked lock shows up as a hang. Both kill or freeze the
// process, so fault cases run in a re-exec'd child that mirrors every applied write to a file (unbuffered). The parent
// rebuilds the on-disk image from the mirror, treats "process exited" as a crash and judges the reopened image.
//
// A failure the node SURVIVES (InsertChain returns an error, no log.Crit) is not a crash: the child goes on in the same
// process with everything the node keeps in memory (block/header/td caches, trie memory layer): the failed segment is
// offered again, then the rest of the history (a competing branch may overtake), then Stop; the parent reopens the
// final image and runs the full judgement. What must not happen: a block that never reached the disk becomes part of the
// canonical chain because some cache vouched for it.

const (
	exitDone     = 0
	exitCrit     = 1 // log.Crit (repository code)
	exitDeadlock = 3
)

// childMain: -child chain <scenario json> <failAt> <mirror>   |   -child trie <failAt> <mirror>
func childMain(args []string) {
	if len(args) < 1 {
		os.Exit(9)
	}
	switch args[0] {
	case "chain":
		var sc Scenario
		if err := json.Unmarshal([]byte(args[1]), &sc); err != nil {
			fmt.Fprintln(os.Stderr, "bad scenario:", err)
			os.Exit(9)
		}
		failAt, _ := strconv.Atoi(args[2])
		childChain(sc, failAt, args[3])
	case "trie":
		failAt, _ := strconv.Atoi(args[1])
		childTrie(failAt, args[2])
	}
	os.Exit(9)
}

func childChain(sc Scenario, failAt int, mirror string) {
	f, err := os.Create(mirror)
	if err != nil {
		os.Exit(9)
	}
	b := sc.Build()
	db := NewRecDB()
	r, err := NewRunner(b, db)
	if err != nil {
		os.Exit(9)
	}
	db.mirror = f
	db.FailAt = failAt
	r.Retry = 2 // a segment whose import failed is offered again (same process, same caches)
	for i := range b.Ops {
		done := make(chan struct{})
		go func() {
			r.Step(i)
			close(done)
		}()
		select {
		case <-done:
		case <-time.After(30 * time.Second):
			// the operation never returned: deadlock (or livelock) after the failed write
			db.CurOp = i
			db.Marker('H')
			os.Exit(exitDeadlock)
		}
		db.Marker('o')
	}
	db.Marker('E')
	os.Exit(exitDone)
}

// childTrie drives trie.Database.Commit directly with enough secure-trie preimages (> IdealBatchSize) to make the
// preimage loop flush, fails the failAt-th batch.Write and then probes the lock with a writer (Dereference) and a second
// Commit.
func childTrie(failAt int, mirror string) {
	f, err := os.Create(mirror)
	if err != nil {
		os.Exit(9)
	}
	db := NewRecDB()
	db.mirror = f
	tdb := trie.NewDatabase(db)
	tr, _ := trie.NewSecure(common.Hash{}, tdb, 0)
	for i := 0; i < 4000; i++ {
		k := common.BigToHash(common.Big1).Bytes()
		k[0], k[1], k[2] = byte(i), byte(i>>8), 0x77
		tr.Update(k, []byte{1, byte(i), byte(i >> 8), 3, 4, 5, 6, 7, 8, 9, 10, 11, 12, 13, 14, 15, 16, 17, 18, 19, 20, 21, 22, 23, 24, 25, 26, 27, 28, 29, 30, 31, 32, 33})
	}
	root, err := tr.Commit(nil)
	if err != nil {
		os.Exit(9)
	}
	tdb.Reference(root, common.Hash{})
	db.FailAt = failAt
	done := make(chan struct{})
	go func() {
		err := tdb.Commit(root, false)
		db.CurOp = 0
		if err != nil {
			db.CurOp = 1 // the commit reported the failure
		}
		db.Marker('o')
		// liveness probes: a writer and a full second commit
		tdb.Dereference(common.Hash{1}, common.Hash{})
		db.Marker('o')
		if err := tdb.Commit(root, false); err != nil {
			db.CurOp = 2
		}
		db.Marker('o')
		close(done)
	}()
	select {
	case <-done:
	case <-time.After(12 * time.Second):
		db.Marker('H')
		os.Exit(exitDeadlock)
	}
	db.Marker('E')
	os.Exit(exitDone)
}

// ---- parent side --------------------------------------------------------------------------------------------------------

type ChildResult struct {
	FailAt   int
	Exit     int
	Timeout  bool
	Records  []Event
	FailedAt *Event // the failed write (keys only)
}

func runChild(self string, dir string, tag string, args []string, timeout time.Duration) ChildResult {
	mirror := filepath.Join(dir, tag+".log")
	cmd := exec.Command(self, append(append([]string{"-child"}, args...), mirror)...)
	cmd.Stdout, cmd.Stderr = nil, nil
	res := ChildResult{}
	if err := cmd.Start(); err != nil {
		res.Exit = -1
		return res
	}
	done := make(chan error, 1)
	go func() { done <- cmd.Wait() }()
	select {
	case err := <-done:
		if ee, ok := err.(*exec.ExitError); ok {
			res.Exit = ee.ExitCode()
		} else if err != nil {
			res.Exit = -1
		}
	case <-time.After(timeout):
		cmd.Process.Kill()
		<-done
		res.Timeout = true
		res.Exit = exitDeadlock
	}
	res.Records, _ = readEvents(mirror)
	os.Remove(mirror)
	for i := range res.Records {
		if res.Records[i].Kind == 'F' {
			res.FailedAt = &res.Records[i]
		}
	}
	return res
}

// parallel runs f(i) for i in [0,n) on w workers.
func parallel(n, w int, f func(i int)) {
	var wg sync.WaitGroup
	ch := make(chan int)
	for k := 0; k < w; k++ {
		wg.Add(1)
		go func() {
			defer wg.Done()
			for i := range ch {
				f(i)
			}
		}()
	}
	for i := 0; i < n; i++ {
		ch <- i
	}
	close(ch)
	wg.Wait()
}

package main

import (
	"encoding/binary"
	"errors"
	"io"
	"os"
	"sync"

	"gitlab.com/aquachain/aquachain/aquadb"
	"gitlab.com/aquachain/aquachain/common"
)

// ---- write events ------------------------------------------------------------------------------------------------------

// W is one key write inside an event (Del: deletion).
type W struct {
	Key, Val []byte
	Del      bool
}

// Event is one database mutation as the storage engine sees it: a single Put, a single Delete or one atomic batch flush.
type Event struct {
	Kind byte // 'p' put, 'd' delete, 'b' batch flush
	Ws   []W
	Head common.Hash // ghost: the node's in-memory head block when the event was issued (i.e. BEFORE it is applied)
	Op   int         // index of the scenario operation that issued it
}

var errInjected = errors.New("injected write failure")

// RecDB wraps a MemDatabase: records every mutation as an Event (batches are recorded when flushed), can make the
// n-th mutation fail (the write is not applied and an error is returned), and can mirror the log to a file so that a
// process death (log.Crit -> os.Exit) leaves the exact sequence of applied writes behind.
type RecDB struct {
	mu     sync.Mutex
	inner  *aquadb.MemDatabase
	Log    []Event
	Ghost  func() common.Hash // in-memory head of the node under test
	CurOp  int
	FailAt int // index (in issue order, counting failed ones) of the mutation to fail; -1: none
	issued int
	Failed []int // indices of Log-positions before which a failed write was issued (diagnostics)
	mirror *os.File
	Record bool
}

func NewRecDB() *RecDB {
	return &RecDB{inner: aquadb.NewMemDatabase(), FailAt: -1, Record: true}
}

func (r *RecDB) ghost() common.Hash {
	if r.Ghost == nil {
		return common.Hash{}
	}
	return r.Ghost()
}

// issue decides whether the mutation goes through; it appends the event to the log (and mirror) when it does.
func (r *RecDB) issue(kind byte, ws []W) error {
	r.mu.Lock()
	defer r.mu.Unlock()
	if !r.Record {
		return nil
	}
	n := r.issued
	r.issued++
	ev := Event{Kind: kind, Ws: ws, Head: r.ghost(), Op: r.CurOp}
	if n == r.FailAt {
		r.Failed = append(r.Failed, len(r.Log))
		if r.mirror != nil {
			fe := ev
			fe.Kind = 'F'
			fe.Ws = classifyOnly(ws)
			writeEvent(r.mirror, &fe)
		}
		return errInjected
	}
	r.Log = append(r.Log, ev)
	if r.mirror != nil {
		writeEvent(r.mirror, &ev)
	}
	return nil
}

// classifyOnly keeps the keys (not the values) of a failed write for the report.
func classifyOnly(ws []W) []W {
	out := make([]W, len(ws))
	for i, w := range ws {
		out[i] = W{Key: w.Key, Del: w.Del}
	}
	return out
}

func (r *RecDB) Put(key, value []byte) error {
	k, v := common.CopyBytes(key), common.CopyBytes(value)
	if err := r.issue('p', []W{{Key: k, Val: v}}); err != nil {
		return err
	}
	return r.inner.Put(k, v)
}

func (r *RecDB) Delete(key []byte) error {
	k := common.CopyBytes(key)
	if err := r.issue('d', []W{{Key: k, Del: true}}); err != nil {
		return err
	}
	return r.inner.Delete(k)
}

func (r *RecDB) Get(key []byte) ([]byte, error) { return r.inner.Get(key) }
func (r *RecDB) Has(key []byte) (bool, error)   { return r.inner.Has(key) }
func (r *RecDB) Close()                         {}
func (r *RecDB) NewBatch() aquadb.Batch         { return &recBatch{db: r} }

// Marker appends a non-mutating record (op boundaries, final ghost head) to the mirror.
func (r *RecDB) Marker(kind byte) {
	r.mu.Lock()
	defer r.mu.Unlock()
	if r.mirror != nil {
		writeEvent(r.mirror, &Event{Kind: kind, Head: r.ghost(), Op: r.CurOp})
	}
}

type recBatch struct {
	db   *RecDB
	ws   []W
	size int
}

func (b *recBatch) Put(key, value []byte) error {
	b.ws = append(b.ws, W{Key: common.CopyBytes(key), Val: common.CopyBytes(value)})
	b.size += len(value)
	return nil
}
func (b *recBatch) Delete(key []byte) error {
	b.ws = append(b.ws, W{Key: common.CopyBytes(key), Del: true})
	b.size++
	return nil
}
func (b *recBatch) ValueSize() int { return b.size }
func (b *recBatch) Reset()         { b.ws, b.size = nil, 0 }

// Write flushes the batch atomically (like MemDatabase/LevelDB a second Write without Reset re-applies the same writes).
func (b *recBatch) Write() error {
	ws := append([]W{}, b.ws...)
	if err := b.db.issue('b', ws); err != nil {
		return err
	}
	ib := b.db.inner.NewBatch()
	for _, w := range ws {
		if w.Del {
			ib.Delete(w.Key)
		} else {
			ib.Put(w.Key, w.Val)
		}
	}
	return ib.Write()
}

// ---- plain key/value images of a database (used to materialise prefixes) --------------------------------------------------

type Image map[string][]byte

func (im Image) Apply(ev *Event) {
	for _, w := range ev.Ws {
		if w.Del {
			delete(im, string(w.Key))
		} else {
			im[string(w.Key)] = w.Val
		}
	}
}

func (im Image) Clone() Image {
	out := make(Image, len(im)+16)
	for k, v := range im {
		out[k] = v
	}
	return out
}

// Mem materialises the image into a fresh MemDatabase.
func (im Image) Mem() *aquadb.MemDatabase {
	db := aquadb.NewMemDatabaseWithCap(len(im) + 64)
	for k, v := range im {
		db.Put([]byte(k), v)
	}
	return db
}

func ImageOf(db *aquadb.MemDatabase) Image {
	im := Image{}
	for _, k := range db.Keys() {
		v, _ := db.Get(k)
		im[string(k)] = v
	}
	return im
}

// ---- mirror file (child process -> parent) -------------------------------------------------------------------------------

func writeEvent(f *os.File, ev *Event) {
	var buf []byte
	buf = append(buf, ev.Kind)
	buf = append(buf, ev.Head[:]...)
	buf = binary.AppendUvarint(buf, uint64(ev.Op))
	buf = binary.AppendUvarint(buf, uint64(len(ev.Ws)))
	for _, w := range ev.Ws {
		d := byte(0)
		if w.Del {
			d = 1
		}
		buf = append(buf, d)
		buf = binary.AppendUvarint(buf, uint64(len(w.Key)))
		buf = append(buf, w.Key...)
		buf = binary.AppendUvarint(buf, uint64(len(w.Val)))
		buf = append(buf, w.Val...)
	}
	var hdr [4]byte
	binary.BigEndian.PutUint32(hdr[:], uint32(len(buf)))
	f.Write(append(hdr[:], buf...)) // unbuffered: survives os.Exit
}

// readEvents reads a mirror file; a torn last record (process killed mid-write) is ignored.
func readEvents(path string) ([]Event, error) {
	data, err := os.ReadFile(path)
	if err != nil {
		return nil, err
	}
	var out []Event
	for len(data) >= 4 {
		n := int(binary.BigEndian.Uint32(data[:4]))
		if len(data) < 4+n {
			break
		}
		rec := data[4 : 4+n]
		data = data[4+n:]
		ev, err := parseEvent(rec)
		if err != nil {
			return out, err
		}
		out = append(out, ev)
	}
	return out, nil
}

func parseEvent(rec []byte) (Event, error) {
	var ev Event
	if len(rec) < 33 {
		return ev, io.ErrUnexpectedEOF
	}
	ev.Kind = rec[0]
	copy(ev.Head[:], rec[1:33])
	rec = rec[33:]
	uv := func() (uint64, error) {
		v, n := binary.Uvarint(rec)
		if n <= 0 {
			return 0, io.ErrUnexpectedEOF
		}
		rec = rec[n:]
		return v, nil
	}
	op, err := uv()
	if err != nil {
		return ev, err
	}
	ev.Op = int(op)
	nw, err := uv()
	if err != nil {
		return ev, err
	}
	for i := uint64(0); i < nw; i++ {
		if len(rec) < 1 {
			return ev, io.ErrUnexpectedEOF
		}
		w := W{Del: rec[0] == 1}
		rec = rec[1:]
		kl, err := uv()
		if err != nil || uint64(len(rec)) < kl {
			return ev, io.ErrUnexpectedEOF
		}
		w.Key = append([]byte{}, rec[:kl]...)
		rec = rec[kl:]
		vl, err := uv()
		if err != nil || uint64(len(rec)) < vl {
			return ev, io.ErrUnexpectedEOF
		}
		w.Val = append([]byte{}, rec[:vl]...)
		rec = rec[vl:]
		ev.Ws = append(ev.Ws, w)
	}
	return ev, nil
}

package main

import (
	"bytes"
	"encoding/binary"

	"gitlab.com/aquachain/aquachain/common"
	"gitlab.com/aquachain/aquachain/crypto"
	"gitlab.com/aquachain/aquachain/rlp"
)

// Key classes of the chain database schema (core/database_util.go). The probe in selfTestSchema re-derives them from
// the real Write* helpers on every run, so a schema change in the tree under test is noticed.
type KClass int

const (
	KOther KClass = iota
	KHeader
	KTd
	KCanon
	KBody
	KReceipts
	KHashNum
	KLookup
	KLastBlock
	KLastHeader
	KLastFast
	KNode
	KPreimage
)

var kclassName = [...]string{"other", "header", "td", "canon", "body", "receipts", "hashnum", "lookup", "LastBlock", "LastHeader", "LastFast", "node", "preimage"}

func (k KClass) String() string { return kclassName[k] }

// KeyInfo is a parsed key.
type KeyInfo struct {
	Class KClass
	Hash  common.Hash // block hash / tx hash / node hash / preimage hash
	Num   uint64      // block number where the key carries one
}

var preimagePrefix = []byte("secure-key-")

func parseKey(k []byte) KeyInfo {
	switch {
	case bytes.Equal(k, []byte("LastBlock")):
		return KeyInfo{Class: KLastBlock}
	case bytes.Equal(k, []byte("LastHeader")):
		return KeyInfo{Class: KLastHeader}
	case bytes.Equal(k, []byte("LastFast")):
		return KeyInfo{Class: KLastFast}
	case len(k) == 32:
		return KeyInfo{Class: KNode, Hash: common.BytesToHash(k)}
	case len(k) == len(preimagePrefix)+32 && bytes.HasPrefix(k, preimagePrefix):
		return KeyInfo{Class: KPreimage, Hash: common.BytesToHash(k[len(preimagePrefix):])}
	case len(k) == 41 && k[0] == 'h':
		return KeyInfo{Class: KHeader, Num: binary.BigEndian.Uint64(k[1:9]), Hash: common.BytesToHash(k[9:])}
	case len(k) == 42 && k[0] == 'h' && k[41] == 't':
		return KeyInfo{Class: KTd, Num: binary.BigEndian.Uint64(k[1:9]), Hash: common.BytesToHash(k[9:41])}
	case len(k) == 10 && k[0] == 'h' && k[9] == 'n':
		return KeyInfo{Class: KCanon, Num: binary.BigEndian.Uint64(k[1:9])}
	case len(k) == 41 && k[0] == 'b':
		return KeyInfo{Class: KBody, Num: binary.BigEndian.Uint64(k[1:9]), Hash: common.BytesToHash(k[9:])}
	case len(k) == 41 && k[0] == 'r':
		return KeyInfo{Class: KReceipts, Num: binary.BigEndian.Uint64(k[1:9]), Hash: common.BytesToHash(k[9:])}
	case len(k) == 33 && k[0] == 'H':
		return KeyInfo{Class: KHashNum, Hash: common.BytesToHash(k[1:])}
	case len(k) == 33 && k[0] == 'l':
		return KeyInfo{Class: KLookup, Hash: common.BytesToHash(k[1:])}
	}
	return KeyInfo{Class: KOther}
}

var (
	emptyRoot = common.HexToHash("56e81f171bcc55a6ff8345e692c0f86e5b48e01b996cadc001622fb5e363b421")
	emptyCode = crypto.Keccak256Hash(nil)
)

// nodeChildren decodes a stored trie node blob and returns every 32-byte reference it makes to another stored object:
// child nodes (branch slots, extension targets, also through embedded (<32 byte) nodes) and, for account leaves of the
// state trie, the storage root and the code hash. A blob that is not a trie node (contract code) has no children.
func nodeChildren(blob []byte) []common.Hash {
	var out []common.Hash
	collectRefs(blob, &out, 0)
	return out
}

func collectRefs(buf []byte, out *[]common.Hash, depth int) {
	if depth > 8 {
		return
	}
	elems, _, err := rlp.SplitList(buf)
	if err != nil {
		return
	}
	n, err := rlp.CountValues(elems)
	if err != nil {
		return
	}
	switch n {
	case 2:
		kbuf, rest, err := rlp.SplitString(elems)
		if err != nil {
			return
		}
		leaf := len(kbuf) > 0 && kbuf[0]&0x20 != 0
		kind, val, _, err := rlp.Split(rest)
		if err != nil {
			return
		}
		if leaf {
			// value node: an account (state trie) references its storage root and code
			if kind == rlp.String {
				accountRefs(val, out)
			}
			return
		}
		if kind == rlp.String && len(val) == 32 {
			*out = append(*out, common.BytesToHash(val))
		} else if kind == rlp.List {
			collectRefs(rest, out, depth+1)
		}
	case 17:
		rest := elems
		for i := 0; i < 16; i++ {
			kind, val, r2, err := rlp.Split(rest)
			if err != nil {
				return
			}
			if kind == rlp.String && len(val) == 32 {
				*out = append(*out, common.BytesToHash(val))
			} else if kind == rlp.List {
				collectRefs(rest[:len(rest)-len(r2)], out, depth+1)
			}
			rest = r2
		}
		// slot 16 (value) is never used by the secure tries
	}
}

func accountRefs(val []byte, out *[]common.Hash) {
	elems, _, err := rlp.SplitList(val)
	if err != nil {
		return
	}
	if n, err := rlp.CountValues(elems); err != nil || n != 4 {
		return
	}
	_, _, rest, err := rlp.Split(elems) // nonce
	if err != nil {
		return
	}
	_, _, rest, err = rlp.Split(rest) // balance
	if err != nil {
		return
	}
	root, rest, err := rlp.SplitString(rest)
	if err != nil || len(root) != 32 {
		return
	}
	code, _, err := rlp.SplitString(rest)
	if err != nil || len(code) != 32 {
		return
	}
	if r := common.BytesToHash(root); r != emptyRoot {
		*out = append(*out, r)
	}
	if c := common.BytesToHash(code); c != emptyCode {
		*out = append(*out, c)
	}
}

package main

import (
	"context"
	"fmt"
	"time"

	"gitlab.com/aquachain/aquachain/aquadb"
	"gitlab.com/aquachain/aquachain/common"
	"gitlab.com/aquachain/aquachain/consensus/aquahash"
	"gitlab.com/aquachain/aquachain/core"
	"gitlab.com/aquachain/aquachain/core/vm"
	"verifharness/chainx"
	"verifharness/hx"
)

// Scenario is a replayable description of one history: a block tree (built by chainx from TreeSeed), an arrival order
// and InsertChain batching (from OrderSeed), a cache configuration and where Stop/reopen/SetHead happen.
type Scenario struct {
	Name      string `json:"name"`
	TreeSeed  uint64 `json:"treeSeed"`
	N         int    `json:"n"`       // number of blocks
	Branchy   int    `json:"branchy"` // percent chance of extending a non-tip node
	Linear    bool   `json:"linear"`  // single chain (long pruning runs)
	Contracts bool   `json:"contracts"`
	Cache     string `json:"cache"` // archive | pruning
	OrderSeed uint64 `json:"orderSeed"`
	StopMid   bool   `json:"stopMid"`   // Stop + reopen after half of the imports
	SetHeadTo int    `json:"setHeadTo"` // >=0: after all imports SetHead(n) (extended scope, judged separately)
	Tail      int    `json:"tail"`      // linear: number of extra fork blocks near the tip
	Fresh     int    `json:"fresh"`     // transfers to never-seen addresses per block (big states: multi-flush trie commits)
	// Directed: a 2-block trunk, then an "old" branch of OldLen slow (low-difficulty) blocks imported first and a "new"
	// branch of NewLen fast (high-difficulty) blocks from the same fork point: the shorter branch overtakes the longer.
	Directed bool `json:"directed"`
	OldLen   int  `json:"oldLen"`
	NewLen   int  `json:"newLen"`
}

func (s Scenario) String() string {
	return fmt.Sprintf("%s{tree=%d n=%d br=%d lin=%v con=%v %s order=%d stopmid=%v sethead=%d}", s.Name, s.TreeSeed, s.N, s.Branchy, s.Linear,
		s.Contracts, s.Cache, s.OrderSeed, s.StopMid, s.SetHeadTo)
}

func (s Scenario) cacheConfig() *core.CacheConfig {
	if s.Cache == "archive" {
		return &core.CacheConfig{Disabled: true}
	}
	// pruning node that flushes as eagerly as the code allows: zero memory allowance and a 1ns time allowance make every
	// block above height 128 commit the trie of block (height-128)
	return &core.CacheConfig{Disabled: false, TrieNodeLimit: 0, TrieTimeLimit: time.Nanosecond}
}

// OpKind of a scenario step.
type ScOp struct {
	Kind string // import | stop | reopen | sethead
	Ids  []int  // import: node ids (one InsertChain call)
	N    uint64 // sethead target
}

type Built struct {
	Sc   Scenario
	Tree *chainx.Tree
	Ops  []ScOp
}

func (s Scenario) Build() *Built {
	r := hx.NewRng(s.TreeSeed)
	t := chainx.NewTree(chainx.Opts{ForkFree: true, MinOffset: -9, MaxOffset: 400, WithTxs: true, WithContracts: s.Contracts, FreshTransfers: s.Fresh})
	or := hx.NewRng(s.OrderSeed ^ 0x5ca1ab1e)
	var order []int
	switch {
	case s.Directed:
		t.AddChild(r, 0)
		fork := t.AddChild(r, 1).ID
		slow, fast := t.Opts, t.Opts
		slow.MinOffset, slow.MaxOffset = 2500, 3000
		fast.MinOffset, fast.MaxOffset = -232, -228
		t.Opts = slow
		tip := fork
		for i := 0; i < s.OldLen; i++ {
			tip = t.AddChild(r, tip).ID
		}
		t.Opts = fast
		tip = fork
		for i := 0; i < s.NewLen; i++ {
			tip = t.AddChild(r, tip).ID
		}
		for id := 1; id < len(t.Nodes); id++ {
			order = append(order, id) // trunk, the old branch, then the new branch
		}
	case s.Linear:
		for i := 0; i < s.N; i++ {
			t.AddChild(r, len(t.Nodes)-1)
		}
		for i := 0; i < s.Tail; i++ {
			t.AddChild(r, len(t.Nodes)-1-r.Intn(4))
		}
		order = t.ParentClosedOrder(or)
	default:
		t.Grow(r, s.N, s.Branchy)
		order = t.ParentClosedOrder(or)
	}
	batches := t.Batches(or, order)
	b := &Built{Sc: s, Tree: t}
	for i, ids := range batches {
		if s.StopMid && i == len(batches)/2 {
			b.Ops = append(b.Ops, ScOp{Kind: "stop"}, ScOp{Kind: "reopen"})
		}
		b.Ops = append(b.Ops, ScOp{Kind: "import", Ids: ids})
	}
	if s.SetHeadTo >= 0 {
		b.Ops = append(b.Ops, ScOp{Kind: "sethead", N: uint64(s.SetHeadTo)})
	}
	b.Ops = append(b.Ops, ScOp{Kind: "stop"})
	return b
}

// Runner executes a built scenario on a RecDB.
type Runner struct {
	B    *Built
	DB   *RecDB
	BC   *core.BlockChain
	last common.Hash // last observed in-memory head (kept while no chain object is alive)
	// Retry: how often an InsertChain call that returned an error is offered again (the downloader re-delivers a failed
	// segment); used by the fault-injection children so that the history goes on after a survivable write failure
	Retry   int
	Retried int
	// per-op results
	OpErr []string
}

func openChain(db aquadb.Database, cache *core.CacheConfig, t *chainx.Tree) (*core.BlockChain, error) {
	return core.NewBlockChain(context.Background(), db, cache, t.Cfg, aquahash.NewFaker(), vm.Config{})
}

// NewRunner commits the genesis block (not recorded: initialisation is outside the property) and opens the chain.
func NewRunner(b *Built, db *RecDB) (*Runner, error) {
	r := &Runner{B: b, DB: db}
	db.Record = false
	b.Tree.Gspec.MustCommit(db.inner)
	db.Record = true
	r.last = b.Tree.Nodes[0].Block.Hash()
	db.Ghost = r.ghost
	db.CurOp = -1
	bc, err := openChain(db, b.Sc.cacheConfig(), b.Tree)
	if err != nil {
		return nil, err
	}
	r.BC = bc
	return r, nil
}

func (r *Runner) ghost() (h common.Hash) {
	defer func() {
		if recover() != nil {
			h = r.last
		}
	}()
	if r.BC != nil {
		r.last = r.BC.CurrentBlock().Hash()
	}
	return r.last
}

// Step executes op i; the returned string is a small outcome class.
func (r *Runner) Step(i int) string {
	op := r.B.Ops[i]
	r.DB.CurOp = i
	out := "ok"
	switch op.Kind {
	case "import":
		if r.BC == nil {
			return "no-chain"
		}
		_, err := r.BC.InsertChain(r.B.Tree.Blocks(op.Ids))
		for k := 0; err != nil && k < r.Retry; k++ {
			r.Retried++
			_, err = r.BC.InsertChain(r.B.Tree.Blocks(op.Ids))
		}
		if err != nil {
			out = "err:" + err.Error()
		}
	case "stop":
		if r.BC != nil {
			r.ghost()
			r.BC.Stop()
			r.BC = nil
		}
	case "reopen":
		bc, err := openChain(r.DB, r.B.Sc.cacheConfig(), r.B.Tree)
		if err != nil {
			return "err:" + err.Error()
		}
		r.BC = bc
	case "sethead":
		if r.BC == nil {
			return "no-chain"
		}
		if err := r.BC.SetHead(op.N); err != nil {
			out = "err:" + err.Error()
		}
	}
	r.ghost()
	return out
}

// RunAll executes every op; the final in-memory head is returned.
func (r *Runner) RunAll() common.Hash {
	for i := range r.B.Ops {
		r.OpErr = append(r.OpErr, r.Step(i))
	}
	return r.last
}

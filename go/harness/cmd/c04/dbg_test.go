package main

import (
	"fmt"
	"testing"
)

func TestDirected(t *testing.T) {
	sc := Scenario{Name: "dirA", TreeSeed: 1501, Directed: true, OldLen: 8, NewLen: 7, Cache: "archive", OrderSeed: 1000, SetHeadTo: -1}
	b := sc.Build()
	for _, n := range b.Tree.Nodes {
		fmt.Println(n.ID, n.Parent, n.Block.NumberU64(), n.Block.Difficulty(), n.Block.Time(), b.Tree.Td(n.ID))
	}
}

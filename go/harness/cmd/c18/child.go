package main

// Child side of the C18 harness: one process per environment (the UNSAFE_* variables are read by package rpc's
// variable initialisers, i.e. once per process). A child starts real nodes (node.Node + the aqua service, in-memory chain
// database, no p2p sockets) for a list of scenarios, enumerates what each per-transport rpc.Server exposes, calls methods
// through real clients attached to each transport and records, per call, whether a keystore signature was produced.

import (
	"bytes"
	"context"
	"encoding/base64"
	"encoding/hex"
	"encoding/json"
	"fmt"
	"math/big"
	"os"
	"path/filepath"
	"reflect"
	"runtime/debug"
	"sort"
	"strings"
	"time"

	"github.com/btcsuite/btcd/btcec/v2"
	"github.com/pborman/uuid"
	"gitlab.com/aquachain/aquachain/aqua"
	"gitlab.com/aquachain/aquachain/aqua/accounts"
	"gitlab.com/aquachain/aquachain/aqua/accounts/keystore"
	"gitlab.com/aquachain/aquachain/common"
	"gitlab.com/aquachain/aquachain/common/log"
	"gitlab.com/aquachain/aquachain/consensus/aquahash"
	"gitlab.com/aquachain/aquachain/core"
	"gitlab.com/aquachain/aquachain/core/types"
	"gitlab.com/aquachain/aquachain/crypto"
	"gitlab.com/aquachain/aquachain/node"
	"gitlab.com/aquachain/aquachain/p2p"
	"gitlab.com/aquachain/aquachain/params"
	"gitlab.com/aquachain/aquachain/rlp"
	"gitlab.com/aquachain/aquachain/rpc"
	rpcclient "gitlab.com/aquachain/aquachain/rpc/rpcclient"
	"verifharness/hx"
)

// Scenario is one node configuration inside a child (the environment is the child's own).
type Scenario struct {
	Kind  string    `json:"kind"`          // pow | clique
	HTTP  []string  `json:"http"`          // HTTPModules whitelist (nil: public APIs only)
	WS    []string  `json:"ws"`            // WSModules whitelist
	WSAll bool      `json:"wsall"`         // WSExposeAll
	Sweep string    `json:"sweep"`         // full | accounts | accounts-lite | none | only
	Trs   []string  `json:"trs,omitempty"` // sweep only these transports (all four are always started and enumerated)
	Only  *OnlyCall `json:"only,omitempty"`
}

// OnlyCall selects a single call (replay).
type OnlyCall struct {
	Transport, Ns, Name, Variant string
}

type ChildSpec struct {
	ID        string     `json:"id"`
	Seed      uint64     `json:"seed"`
	Dir       string     `json:"dir"`
	Scenarios []Scenario `json:"scenarios"`
	Skip      []string   `json:"skip"` // call keys that killed an earlier incarnation of this child
	StartAt   int        `json:"startAt"`
}

// Rec is one line of the child's output trail (JSON lines, flushed per record).
type Rec struct {
	T        string            `json:"t"` // flags | scen | exposed | modules | begin | call | note | done
	Scen     int               `json:"scen"`
	Flags    map[string]bool   `json:"flags,omitempty"`
	Hook     bool              `json:"hook,omitempty"`
	Tr       string            `json:"tr,omitempty"`
	List     []string          `json:"list,omitempty"`
	Key      string            `json:"key,omitempty"`
	Ns       string            `json:"ns,omitempty"`
	Name     string            `json:"name,omitempty"`
	Rcvr     string            `json:"rcvr,omitempty"`
	GoName   string            `json:"goName,omitempty"`
	IsSub    bool              `json:"isSub,omitempty"`
	Variant  string            `json:"variant,omitempty"`
	Args     json.RawMessage   `json:"args,omitempty"`
	Outcome  string            `json:"outcome,omitempty"`
	Delta    uint64            `json:"delta,omitempty"`
	Count    uint64            `json:"count,omitempty"` // cumulative value of the signing counter after the call
	Evidence string            `json:"evidence,omitempty"`
	Msg      string            `json:"msg,omitempty"`
	Ms       int64             `json:"ms,omitempty"`
	Accounts map[string]string `json:"accounts,omitempty"`
}

const (
	passRight = "correct horse battery staple"
	passWrong = "wrong horse"
)

var transports = []string{"inproc", "ipc", "http", "ws"}

type child struct {
	spec     ChildSpec
	out      *os.File
	rng      *hx.Rng
	scen     int
	sc       Scenario
	stack    *node.Node
	svc      *aqua.Aquachain
	ks       *keystore.KeyStore
	cli      map[string]*rpcclient.Client
	srv      map[string]*rpc.Server
	cfg      *params.ChainConfig
	accA     common.Address // unlocked
	accB     common.Address // locked
	accC     common.Address // not in the keystore
	seenTx   map[common.Hash]bool
	lastHead uint64
	chainSeq int
	hook     bool
	lastKey  string
	// key of the last call after which the miner was found running: a block seal (and the SignHashAllowed behind it) can only come
	// from the miner, possibly long after it was told to stop (an in-flight Seal still signs and the block is inserted later), so
	// seals are attributed causally to this call, not to whatever call happens to be running when the block shows up
	miningStarter string
}

func (c *child) emit(r Rec) {
	r.Scen = c.scen
	b, _ := json.Marshal(r)
	c.out.Write(append(b, '\n'))
}

func childMain(specPath string) {
	var spec ChildSpec
	b, err := os.ReadFile(specPath)
	if err != nil {
		panic(err)
	}
	if err := json.Unmarshal(b, &spec); err != nil {
		panic(err)
	}
	node.VerifInitLogging()
	ctx, cancel := context.WithCancelCause(context.Background())
	log.RegisterCancelCause(ctx, cancel)
	os.Setenv("TESTING_TEST", "1")
	os.MkdirAll(spec.Dir, 0o700)
	os.Chdir(spec.Dir)
	f, err := os.OpenFile(filepath.Join(spec.Dir, "trail.jsonl"), os.O_CREATE|os.O_WRONLY|os.O_APPEND, 0o644)
	if err != nil {
		panic(err)
	}
	c := &child{spec: spec, out: f, rng: hx.NewRng(spec.Seed)}
	_, c.hook = keystore.VerifC18SignCount()
	c.emit(Rec{T: "flags", Flags: rpc.VerifAllowFlags(), Hook: c.hook})
	for i := spec.StartAt; i < len(spec.Scenarios); i++ {
		c.scen, c.sc = i, spec.Scenarios[i]
		c.rng = hx.NewRng(spec.Seed).Fork(uint64(i + 1))
		if err := c.runScenario(); err != nil {
			c.emit(Rec{T: "note", Msg: "scenario failed: " + err.Error()})
		}
	}
	c.scen = len(spec.Scenarios)
	c.emit(Rec{T: "done"})
	f.Close()
	os.Exit(0) // do not wait for leaked goroutines of stopped nodes
}

func detKey(tag byte) *btcec.PrivateKey {
	d := crypto.Keccak256([]byte{'c', '1', '8', tag})
	return crypto.ToECDSAUnsafe(d)
}

func (c *child) writeKey(dir string, priv *btcec.PrivateKey, pass string, n int) (common.Address, error) {
	addr := crypto.PubkeyToAddress(priv.PubKey())
	k := &keystore.Key{Id: uuid.NewRandom(), Address: addr, PrivateKey: priv}
	js, err := keystore.EncryptKey(k, pass, 2, 1)
	if err != nil {
		return addr, err
	}
	return addr, os.WriteFile(filepath.Join(dir, fmt.Sprintf("UTC--2026-01-0%dT00-00-00.000000000Z--%x", n, addr[:])), js, 0o600)
}

func (c *child) startNode() error {
	sc := c.sc
	c.chainSeq++
	base := filepath.Join(c.spec.Dir, fmt.Sprintf("s%d-%d", c.scen, c.chainSeq))
	ksdir := filepath.Join(base, "keystore")
	if err := os.MkdirAll(ksdir, 0o700); err != nil {
		return err
	}
	var err error
	if c.accA, err = c.writeKey(ksdir, detKey('A'), passRight, 1); err != nil {
		return err
	}
	if c.accB, err = c.writeKey(ksdir, detKey('B'), passRight, 2); err != nil {
		return err
	}
	c.accC = crypto.PubkeyToAddress(detKey('C').PubKey())

	// a private chain configuration per node start (the registry refuses duplicates)
	chainID := uint64(1_000_000_000) + uint64(os.Getpid()%1_000_000)*1000 + uint64(c.chainSeq)
	cfg := new(params.ChainConfig)
	gen := &core.Genesis{GasLimit: 8_000_000, Difficulty: big.NewInt(1), Alloc: core.GenesisAlloc{}}
	rich := new(big.Int).Lsh(big.NewInt(1), 100)
	for _, a := range []common.Address{c.accA, c.accB, c.accC} {
		gen.Alloc[a] = core.GenesisAccount{Balance: rich}
	}
	switch sc.Kind {
	case "clique":
		*cfg = *params.AllCliqueProtocolChanges
		cfg.Clique = &params.CliqueConfig{Period: 1, Epoch: 30000}
		gen.ExtraData = append(append(make([]byte, 32), c.accA[:]...), make([]byte, 65)...)
	default:
		*cfg = *params.TestChainConfig
	}
	cfg.ChainId = new(big.Int).SetUint64(chainID)
	name := fmt.Sprintf("c18-%d-%d", os.Getpid(), c.chainSeq)
	params.AddChainConfig(name, cfg)
	gen.Config = cfg
	c.cfg = cfg

	ctx := context.Background()
	ncfg := &node.Config{
		Context:           ctx,
		CloseMain:         func(err error) {},
		Name:              name,
		DataDir:           "",
		KeyStoreDir:       ksdir,
		UseLightweightKDF: true,
		IPCPath:           filepath.Join(base, "n.ipc"),
		HTTPHost:          "127.0.0.1",
		HTTPPort:          0,
		HTTPModules:       sc.HTTP,
		WSHost:            "127.0.0.1",
		WSPort:            0,
		WSModules:         sc.WS,
		WSOrigins:         []string{"*"},
		WSExposeAll:       sc.WSAll,
		RPCAllowIP:        []string{"127.0.0.1/32"},
		P2P:               &p2p.Config{ChainId: chainID, NoDiscovery: true, NoDial: true, ListenAddr: "", MaxPeers: 0},
		NoCountdown:       true,
	}
	stack, err := node.New(ncfg)
	if err != nil {
		return fmt.Errorf("node.New: %v", err)
	}
	acfg := aqua.NewDefaultConfig()
	acfg.Genesis = gen
	acfg.ChainId = chainID
	acfg.Aquabase = c.accA
	acfg.Aquahash = &aquahash.Config{PowMode: aquahash.ModeNormal}
	acfg.TxPool.Journal = ""
	acfg.DatabaseCache, acfg.TrieCache = 16, 16
	nodename := ncfg.NodeName()
	var svc *aqua.Aquachain
	if err := stack.Register(func(nctx *node.ServiceContext) (node.Service, error) {
		s, err := aqua.New(ctx, nctx, acfg, nodename)
		svc = s
		return s, err
	}); err != nil {
		return err
	}
	if err := stack.Start(ctx); err != nil {
		return fmt.Errorf("node start: %v", err)
	}
	c.stack, c.svc = stack, svc
	bk := stack.AccountManager().Backends(keystore.KeyStoreType)
	if len(bk) == 0 {
		return fmt.Errorf("no keystore backend")
	}
	c.ks = bk[0].(*keystore.KeyStore)
	if err := c.ks.Unlock(accounts.Account{Address: c.accA}, passRight); err != nil {
		return fmt.Errorf("unlock A: %v", err)
	}
	c.seenTx = map[common.Hash]bool{}
	c.miningStarter = ""
	c.lastHead = svc.BlockChain().CurrentBlock().NumberU64()
	return c.dial()
}

func (c *child) dial() error {
	for _, cl := range c.cli {
		if cl != nil {
			cl.Close()
		}
	}
	c.cli = map[string]*rpcclient.Client{}
	c.srv = map[string]*rpc.Server{}
	inproc, ipc, httpS, ws, httpAddr, wsAddr := node.VerifHandlers(c.stack)
	c.srv["inproc"], c.srv["ipc"], c.srv["http"], c.srv["ws"] = inproc, ipc, httpS, ws
	ctx := context.Background()
	var err error
	if inproc != nil {
		if c.cli["inproc"], err = c.stack.Attach(ctx, "c18"); err != nil {
			return fmt.Errorf("attach: %v", err)
		}
	}
	if ipc != nil {
		if c.cli["ipc"], err = rpcclient.DialIPC(ctx, c.stack.IPCEndpoint()); err != nil {
			return fmt.Errorf("dial ipc: %v", err)
		}
	}
	if httpS != nil {
		if c.cli["http"], err = rpcclient.DialHTTP("http://" + httpAddr); err != nil {
			return fmt.Errorf("dial http: %v", err)
		}
	}
	if ws != nil {
		if c.cli["ws"], err = rpcclient.DialWebsocket(ctx, "ws://"+wsAddr, "http://localhost"); err != nil {
			return fmt.Errorf("dial ws: %v", err)
		}
	}
	return nil
}

func (c *child) stopNode() {
	for _, cl := range c.cli {
		if cl != nil {
			cl.Close()
		}
	}
	c.cli = nil
	if c.stack != nil {
		st := c.stack
		done := make(chan struct{})
		go func() { defer func() { recover(); close(done) }(); st.Stop() }()
		select {
		case <-done:
		case <-time.After(5 * time.Second):
		}
	}
	c.stack, c.svc, c.ks = nil, nil, nil
}

// healthy: the node is running, the four servers are the ones we dialled and every client answers rpc_modules.
func (c *child) healthy(use string) bool {
	if c.stack == nil || c.stack.Server() == nil {
		return false
	}
	inproc, ipc, httpS, ws, _, _ := node.VerifHandlers(c.stack)
	if inproc != c.srv["inproc"] || ipc != c.srv["ipc"] || httpS != c.srv["http"] || ws != c.srv["ws"] {
		return false
	}
	for _, tr := range []string{use} {
		if cl := c.cli[tr]; cl != nil {
			ctx, cancel := context.WithTimeout(context.Background(), 2*time.Second)
			var m map[string]string
			err := cl.CallContext(ctx, &m, "rpc_modules")
			cancel()
			if err != nil {
				return false
			}
		}
	}
	return true
}

type target struct {
	tr string
	cb rpc.VerifCallback
}

func cbKey(cb rpc.VerifCallback) string {
	sep := "="
	if cb.IsSub {
		sep = "~"
	}
	return cb.Namespace + "." + cb.Name + sep + strings.TrimPrefix(cb.Rcvr, "*") + "." + cb.GoName
}

func (c *child) runScenario() error {
	t0 := time.Now()
	if err := c.startNode(); err != nil {
		return err
	}
	defer c.stopNode()
	c.emit(Rec{T: "scen", Ms: time.Since(t0).Milliseconds(), Hook: c.hook,
		Accounts: map[string]string{"A": c.accA.Hex(), "B": c.accB.Hex(), "C": c.accC.Hex()}})
	var targets []target
	for _, tr := range transports {
		if c.srv[tr] == nil {
			c.emit(Rec{T: "note", Tr: tr, Msg: "transport not started"})
			continue
		}
		cbs := rpc.VerifServices(c.srv[tr])
		var keys []string
		for _, cb := range cbs {
			keys = append(keys, cbKey(cb))
			targets = append(targets, target{tr, cb})
		}
		sort.Strings(keys)
		c.emit(Rec{T: "exposed", Tr: tr, List: keys})
		var mods map[string]string
		var err error
		for try := 0; try < 4; try++ { // a loaded box can make the HTTP server drop a request (its read/write timeouts)
			ctx, cancel := context.WithTimeout(context.Background(), 5*time.Second)
			err = c.cli[tr].CallContext(ctx, &mods, "rpc_modules")
			cancel()
			if err == nil {
				break
			}
			time.Sleep(300 * time.Millisecond)
		}
		if err != nil {
			c.emit(Rec{T: "note", Tr: tr, Msg: "rpc_modules failed: " + err.Error()})
		}
		var ml []string
		for m := range mods {
			ml = append(ml, m)
		}
		sort.Strings(ml)
		c.emit(Rec{T: "modules", Tr: tr, List: ml})
	}
	if c.sc.Sweep == "none" {
		return nil
	}
	// build the call list
	type call struct {
		t target
		v variant
	}
	var calls []call
	for _, t := range targets {
		naming, str := namesAccount(t.cb.ArgTypes)
		if (c.sc.Sweep == "accounts" || c.sc.Sweep == "accounts-lite") && !naming {
			continue
		}
		if len(c.sc.Trs) > 0 && !contains(c.sc.Trs, t.tr) {
			continue
		}
		for _, v := range variantsFor(naming, str) {
			if c.sc.Sweep == "accounts-lite" && !(v.String() == "A-right" || v.String() == "B-right" || v.String() == "B-wrong" || v.String() == "C-right") {
				continue
			}
			if c.sc.Sweep == "only" {
				o := c.sc.Only
				if o == nil || o.Transport != t.tr || o.Ns != t.cb.Namespace || o.Name != t.cb.Name || o.Variant != v.String() {
					continue
				}
			}
			calls = append(calls, call{t, v})
		}
	}
	// seed-dependent order
	for i := len(calls) - 1; i > 0; i-- {
		j := c.rng.Intn(i + 1)
		calls[i], calls[j] = calls[j], calls[i]
	}
	skip := map[string]bool{}
	for _, s := range c.spec.Skip {
		skip[s] = true
	}
	for _, cl := range calls {
		key := fmt.Sprintf("%d|%s|%s|%s", c.scen, cl.t.tr, cbKey(cl.t.cb), cl.v.String())
		if skip[key] {
			continue
		}
		if !c.healthy(cl.t.tr) {
			c.stopNode()
			if err := c.startNode(); err != nil {
				return fmt.Errorf("restart: %v", err)
			}
		}
		c.doCall(key, cl.t, cl.v)
	}
	c.lateMining()
	return nil
}

func contains(xs []string, x string) bool {
	for _, y := range xs {
		if y == x {
			return true
		}
	}
	return false
}

// lateMining: StartMining launches the miner with `go s.miner.Start(eb)`; if that goroutine had not run yet when the previous
// call was judged, the miner is found running here. It is stopped, and whatever it signed is attributed to the previous call.
func (c *child) lateMining() {
	if c.svc == nil || c.stack == nil || c.stack.Server() == nil || !c.svc.IsMining() {
		return
	}
	before := c.signCount()
	if c.lastKey != "" {
		c.miningStarter = c.lastKey
	}
	c.settleMining(before)
	ev, _ := c.evidence(nil)
	delta := c.signCount() - before
	if c.miningStarter != "" && (ev != "" || delta > 0) {
		c.emit(Rec{T: "late", Key: c.miningStarter, Evidence: ev, Delta: delta, Count: c.signCount()})
	}
}

// settleMining waits for a mining-triggered seal to show up (clique: until one is observed or 3 s; pow: 100 ms), stops the
// miner and waits until nothing moves any more.
func (c *child) settleMining(before uint64) {
	deadline := time.Now().Add(100 * time.Millisecond)
	if c.sc.Kind == "clique" {
		deadline = time.Now().Add(3 * time.Second)
	}
	for time.Now().Before(deadline) {
		if c.svc.BlockChain().CurrentBlock().NumberU64() > c.lastHead || c.signCount() > before {
			break
		}
		time.Sleep(20 * time.Millisecond)
	}
	c.restore()
	if c.svc == nil || c.stack == nil || c.stack.Server() == nil {
		return
	}
	stable := 0
	lastN, lastH := c.signCount(), c.svc.BlockChain().CurrentBlock().NumberU64()
	for i := 0; i < 150 && stable < 8; i++ {
		time.Sleep(40 * time.Millisecond)
		n, h := c.signCount(), c.svc.BlockChain().CurrentBlock().NumberU64()
		if n == lastN && h == lastH && !c.svc.IsMining() {
			stable++
		} else {
			stable = 0
		}
		lastN, lastH = n, h
	}
}

// ---- argument generation -------------------------------------------------------------------------------------------

type variant struct {
	acct string // A (unlocked) | B (locked) | C (unknown)
	pass string // right | wrong | empty
	null bool   // pass null for pointer arguments
}

func (v variant) String() string {
	s := v.acct + "-" + v.pass
	if v.null {
		s += "-null"
	}
	return s
}

var (
	addrType = reflect.TypeOf(common.Address{})
	hashType = reflect.TypeOf(common.Hash{})
)

// namesAccount reports whether some argument (transitively) can name an account, and whether some argument is a string.
func namesAccount(ts []reflect.Type) (naming, str bool) {
	seen := map[reflect.Type]bool{}
	var walk func(t reflect.Type)
	walk = func(t reflect.Type) {
		if seen[t] {
			return
		}
		seen[t] = true
		if t == addrType {
			naming = true
			return
		}
		switch t.Kind() {
		case reflect.String:
			str = true
		case reflect.Ptr, reflect.Slice, reflect.Array:
			if t.Kind() == reflect.Array && t.Elem().Kind() == reflect.Uint8 {
				return
			}
			walk(t.Elem())
		case reflect.Struct:
			for i := 0; i < t.NumField(); i++ {
				if t.Field(i).PkgPath == "" {
					walk(t.Field(i).Type)
				}
			}
		}
	}
	for _, t := range ts {
		walk(t)
	}
	return
}

func variantsFor(naming, str bool) []variant {
	accts := []string{"A"}
	if naming {
		accts = []string{"A", "B", "C"}
	}
	passes := []string{"right"}
	if str && naming {
		passes = []string{"right", "wrong", "empty"}
	}
	var out []variant
	for _, a := range accts {
		for _, p := range passes {
			out = append(out, variant{a, p, false})
		}
	}
	if naming {
		out = append(out, variant{"A", "right", true})
	}
	return out
}

func (c *child) acct(v variant) common.Address {
	switch v.acct {
	case "B":
		return c.accB
	case "C":
		return c.accC
	}
	return c.accA
}

func passOf(v variant) string {
	switch v.pass {
	case "wrong":
		return passWrong
	case "empty":
		return ""
	}
	return passRight
}

var signData = []byte("c18 message to sign")

func (c *child) genArg(t reflect.Type, v variant, field string, depth int) interface{} {
	if depth > 6 {
		return nil
	}
	switch t {
	case addrType:
		return c.acct(v).Hex()
	case hashType:
		return common.BytesToHash(c.rng.Bytes(32)).Hex()
	}
	full := t.PkgPath() + "." + t.Name()
	switch {
	case strings.HasSuffix(full, "/rpc.BlockNumber"):
		return "latest"
	case strings.HasSuffix(full, "/hexutil.Bytes"):
		return "0x" + hex.EncodeToString(signData)
	case strings.HasSuffix(full, "/hexutil.Uint"), strings.HasSuffix(full, "/hexutil.Uint64"):
		switch strings.ToLower(field) {
		case "gas":
			return "0x15f90"
		case "nonce":
			return nil
		}
		return "0x0"
	case strings.HasSuffix(full, "/hexutil.Big"):
		if strings.ToLower(field) == "gasprice" {
			return "0x3b9aca00"
		}
		return "0x1"
	case strings.HasSuffix(full, "/rpc.ID"):
		return "0x1"
	case strings.HasSuffix(full, "/types.BlockNonce"):
		return "0x0000000000000001"
	case strings.HasSuffix(full, "/filters.FilterCriteria"):
		return map[string]interface{}{}
	}
	switch t.Kind() {
	case reflect.Ptr:
		if v.null {
			return nil
		}
		return c.genArg(t.Elem(), v, field, depth+1)
	case reflect.String:
		return passOf(v)
	case reflect.Bool:
		return c.rng.Bool()
	case reflect.Int, reflect.Int8, reflect.Int16, reflect.Int32, reflect.Int64,
		reflect.Uint, reflect.Uint8, reflect.Uint16, reflect.Uint32, reflect.Uint64:
		return c.rng.Intn(2)
	case reflect.Slice:
		if t.Elem().Kind() == reflect.Uint8 {
			return base64.StdEncoding.EncodeToString(signData)
		}
		return []interface{}{}
	case reflect.Array:
		if t.Elem().Kind() == reflect.Uint8 {
			return "0x" + hex.EncodeToString(c.rng.Bytes(t.Len()))
		}
		return []interface{}{}
	case reflect.Struct:
		m := map[string]interface{}{}
		for i := 0; i < t.NumField(); i++ {
			f := t.Field(i)
			if f.PkgPath != "" {
				continue
			}
			name := f.Name
			if tag := strings.Split(f.Tag.Get("json"), ",")[0]; tag == "-" {
				continue
			} else if tag != "" {
				name = tag
			}
			if name == "input" { // SendTxArgs: "data" and "input" must not both be set to different values
				continue
			}
			if x := c.genArg(f.Type, v, name, depth+1); x != nil {
				m[name] = x
			}
		}
		return m
	case reflect.Map:
		return map[string]interface{}{}
	}
	return nil
}

// ---- one call ---------------------------------------------------------------------------------------------------------

func (c *child) signCount() uint64 {
	n, _ := keystore.VerifC18SignCount()
	return n
}

func (c *child) keystoreAddrs() map[common.Address]bool {
	m := map[common.Address]bool{}
	if c.ks != nil {
		for _, a := range c.ks.Accounts() {
			m[a.Address] = true
		}
	}
	m[c.accA], m[c.accB] = true, true
	return m
}

func (c *child) doCall(key string, t target, v variant) {
	args := make([]interface{}, len(t.cb.ArgTypes))
	for i, at := range t.cb.ArgTypes {
		args[i] = c.genArg(at, v, "", 0)
	}
	aj, _ := json.Marshal(args)
	c.lateMining()
	c.emit(Rec{T: "begin", Key: key})
	c.lastKey = key
	before := c.signCount()
	cl := c.cli[t.tr]
	tmo := 30 * time.Second // nothing blocks legitimately; on a loaded box a slow call must not be cut off while the server still works on it
	if t.cb.IsSub {
		tmo = 700 * time.Millisecond // the HTTP client only learns at the deadline that notifications are unsupported
	}
	ctx, cancel := context.WithTimeout(context.Background(), tmo)
	var raw json.RawMessage
	var err error
	t0 := time.Now()
	outcome := "ok"
	if t.cb.IsSub {
		ch := make(chan json.RawMessage, 16)
		var sub *rpcclient.ClientSubscription
		sub, err = cl.Subscribe(ctx, t.cb.Namespace, ch, append([]interface{}{t.cb.Name}, args...)...)
		if err == nil {
			sub.Unsubscribe()
		}
	} else {
		err = cl.CallContext(ctx, &raw, t.cb.Namespace+"_"+t.cb.Name, args...)
	}
	cancel()
	if err != nil {
		outcome = "err:" + errClass(err)
	}
	if outcome == "err:timeout" && !t.cb.IsSub {
		// the server may still be executing the call: wait until the signing counter and the pool stop moving
		last := c.signCount()
		for i, stable := 0, 0; i < 100 && stable < 5; i++ {
			time.Sleep(100 * time.Millisecond)
			if n := c.signCount(); n == last {
				stable++
			} else {
				stable, last = 0, n
			}
		}
	}
	if c.sc.Kind == "clique" {
		time.Sleep(15 * time.Millisecond) // let a `go miner.Start` launched by the call run
	}
	if c.svc != nil && c.stack.Server() != nil && c.svc.IsMining() {
		c.miningStarter = key
		c.settleMining(before)
	} else {
		c.restore()
	}
	ev, nSealed := c.evidence(raw)
	delta := c.signCount() - before
	if nSealed > 0 && c.miningStarter != "" && c.miningStarter != key {
		// a block sealed by the miner that an earlier call started: hand it (and the signing operations behind it) to that call
		d := uint64(nSealed)
		if d > delta {
			d = delta
		}
		delta -= d
		c.emit(Rec{T: "late", Key: c.miningStarter, Evidence: "sealed", Delta: d, Count: c.signCount()})
		var keep []string
		for _, e := range strings.Split(ev, "+") {
			if e != "sealed" && e != "" {
				keep = append(keep, e)
			}
		}
		ev = strings.Join(keep, "+")
	}
	c.emit(Rec{T: "call", Key: key, Tr: t.tr, Ns: t.cb.Namespace, Name: t.cb.Name, Rcvr: strings.TrimPrefix(t.cb.Rcvr, "*"), GoName: t.cb.GoName, IsSub: t.cb.IsSub,
		Variant: v.String(), Args: aj, Outcome: outcome, Delta: delta, Count: c.signCount(), Evidence: ev, Ms: time.Since(t0).Milliseconds()})
}

func errClass(err error) string {
	s := err.Error()
	for _, p := range []struct{ sub, cls string }{
		{"does not exist", "notfound"}, {"not available", "notfound"}, {"could not decrypt", "decrypt"}, {"authentication needed", "locked"},
		{"unknown account", "unknown-account"}, {"no key for given address", "unknown-account"}, {"invalid argument", "badarg"}, {"missing value", "badarg"},
		{"too many arguments", "badarg"}, {"context deadline", "timeout"}, {"notifications not supported", "nosub"}, {"oh noooo", "nosign-mode"},
	} {
		if strings.Contains(s, p.sub) {
			return p.cls
		}
	}
	return "other"
}

// evidence looks for a signature made with a keystore key, independently of the method's name:
//
//	sig:    a 65-byte value in the result that recovers to a keystore account for the message we sent
//	rawtx:  an RLP transaction in the result whose sender is a keystore account
//	pooltx: a transaction from a keystore account that appeared in the pool during the call
//	sealed: the chain head advanced to a block whose clique seal recovers to a keystore account
func (c *child) evidence(raw json.RawMessage) (string, int) {
	if c.svc == nil || c.stack == nil || c.stack.Server() == nil {
		return "", 0
	}
	nSealed := 0
	ksa := c.keystoreAddrs()
	var ev []string
	var strs []string
	var walk func(x interface{})
	walk = func(x interface{}) {
		switch x := x.(type) {
		case string:
			strs = append(strs, x)
		case []interface{}:
			for _, y := range x {
				walk(y)
			}
		case map[string]interface{}:
			for _, y := range x {
				walk(y)
			}
		}
	}
	if len(raw) > 0 {
		var x interface{}
		if json.Unmarshal(raw, &x) == nil {
			walk(x)
		}
	}
	msgHash := crypto.Keccak256([]byte(fmt.Sprintf("\x19Aquachain Signed Message:\n%d%s", len(signData), signData)))
	signer := types.MakeSigner(c.cfg, c.svc.BlockChain().CurrentBlock().Number())
	for _, s := range strs {
		if !strings.HasPrefix(s, "0x") {
			continue
		}
		b, err := hex.DecodeString(s[2:])
		if err != nil {
			continue
		}
		if len(b) == 65 {
			sig := append([]byte{}, b...)
			if sig[64] >= 27 {
				sig[64] -= 27
			}
			for _, h := range [][]byte{msgHash, crypto.Keccak256(signData), signData} {
				if len(h) != 32 {
					continue
				}
				if pk, err := crypto.Ecrecover(h, sig); err == nil {
					var a common.Address
					copy(a[:], crypto.Keccak256(pk[1:])[12:])
					if ksa[a] {
						ev = append(ev, "sig")
					}
				}
			}
		}
		if len(b) > 65 {
			tx := new(types.Transaction)
			// only a transaction nobody has seen before (not in the pool, not in a block): read-only methods return old ones
			if rlp.DecodeBytes(b, tx) == nil && !c.seenTx[tx.Hash()] {
				c.seenTx[tx.Hash()] = true
				if from, err := types.Sender(signer, tx); err == nil && ksa[from] {
					ev = append(ev, "rawtx")
				}
			}
		}
	}
	pend, queued := c.svc.TxPool().Content()
	for _, m := range []map[common.Address]types.Transactions{pend, queued} {
		for from, txs := range m {
			for _, tx := range txs {
				if !c.seenTx[tx.Hash()] {
					c.seenTx[tx.Hash()] = true
					if ksa[from] {
						ev = append(ev, "pooltx")
					}
				}
			}
		}
	}
	bc := c.svc.BlockChain()
	head := bc.CurrentBlock().NumberU64()
	for n := c.lastHead + 1; n <= head; n++ {
		b := bc.GetBlockByNumber(n)
		if b == nil {
			continue
		}
		for _, tx := range b.Transactions() {
			c.seenTx[tx.Hash()] = true
		}
		h := b.Header()
		if c.cfg.Clique != nil && len(h.Extra) >= 65 {
			if pk, err := crypto.Ecrecover(types.SigHash(h).Bytes(), h.Extra[len(h.Extra)-65:]); err == nil {
				var a common.Address
				copy(a[:], crypto.Keccak256(pk[1:])[12:])
				if ksa[a] {
					ev = append(ev, "sealed")
					nSealed++
				}
			}
		}
	}
	if head < c.lastHead || head > c.lastHead {
		c.lastHead = head
	}
	sort.Strings(ev)
	var uniq []string
	for i, e := range ev {
		if i == 0 || ev[i-1] != e {
			uniq = append(uniq, e)
		}
	}
	return strings.Join(uniq, "+"), nSealed
}

// restore puts the node back into the state every call starts from: A unlocked, B locked, not mining, GC normal.
func (c *child) restore() {
	debug.SetGCPercent(100)
	node.VerifStopProfiling()
	if c.svc == nil || c.stack == nil || c.stack.Server() == nil {
		return
	}
	defer func() { recover() }()
	if c.svc.IsMining() {
		c.svc.StopMining()
		type threaded interface{ SetThreads(int) }
		if th, ok := c.svc.Engine().(threaded); ok {
			th.SetThreads(-1)
		}
	}
	if c.ks != nil {
		if !keystore.VerifIsUnlocked(c.ks, c.accA) {
			c.ks.Unlock(accounts.Account{Address: c.accA}, passRight)
		}
		if keystore.VerifIsUnlocked(c.ks, c.accB) {
			c.ks.Lock(c.accB)
		}
	}
}

var _ = bytes.Equal

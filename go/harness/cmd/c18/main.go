// Harness for property C18 — "No RPC endpoint can make the node sign unless explicitly opted in".
//
// Parent: for every combination of the five UNSAFE_* variables it spawns a child process (package rpc reads the variables
// in variable initialisers, once per process) that starts REAL nodes (node.Node + aqua service) on all four transports,
// enumerates what every per-transport rpc.Server exposes (Server.services through an -overlay accessor, plus rpc_modules
// through a real client) and calls the exposed methods through real inproc / IPC / HTTP / WebSocket clients with arguments
// naming keystore accounts (unlocked, locked, unknown x right / wrong / empty passphrase), observing for every call
// whether a keystore signature was produced (the `verif` signing counter when the hook is in the tree, and always:
// signatures / signed transactions in the result, keystore-signed transactions appearing in the pool, keystore-sealed
// blocks). The parent turns the trails into case lines judged by the Lean model driver (aqmodel_c18), whose `exposed`,
// `optedIn`, `reachesSign` are the definitions the theorems of Aqv.Props.C18 are about:
//
//	F <env>                         flags as package rpc read them            (Env encoding)
//	X <kind> <env> <cfg> <transport>  exact set of registered callbacks       (exposed sets equal the generated table)
//	M <kind> <env> <cfg> <transport>  rpc_modules answer                      (same, through the wire)
//	S <kind> <env> <cfg> <transport> <method> <variant>  signing observation  (property + dynamic-signs ⊆ static reachesSign)
package main

import (
	"bufio"
	"encoding/hex"
	"encoding/json"
	"fmt"
	"os"
	"os/exec"
	"path/filepath"
	"runtime"
	"sort"
	"strings"
	"sync"
	"time"

	"verifharness/hx"
)

// order of the bits in an env string
var envVars = []string{"UNSAFE_ALLOW_SIGN_INPROC", "UNSAFE_ALLOW_SIGN_IPC", "UNSAFE_RPC_SIGNING_HTTP", "UNSAFE_RPC_SIGNING_WS", "UNSAFE_RPC_SIGNING"}
var envShort = []string{"inproc", "ipc", "http", "ws", "all"}
var flagVar = []string{"allow_sign_inProc", "allow_sign_ipc", "allow_sign_http", "allow_sign_ws", "allow_all_rpc_signing"}

// the per-variable value lattice (nil = unset). Which of them opt in is NOT decided here: the Lean driver judges every line with the
// documented reading (`envOn`); the split below only steers which sweeps are planned for a row.
var latticeOff = []*string{nil, sp(""), sp("0"), sp("false"), sp("no"), sp("off")}
var latticeOn = []*string{sp("1"), sp("true"), sp("yes"), sp(" 1"), sp("2")}

func sp(s string) *string { return &s }

type rawEnv [5]*string

// token: five comma-separated values in the order of envVars: `u` = unset, `s<hex>` = present with that value.
func (r rawEnv) token() string {
	var parts []string
	for _, v := range r {
		if v == nil {
			parts = append(parts, "u")
		} else {
			parts = append(parts, "s"+hex.EncodeToString([]byte(*v)))
		}
	}
	return strings.Join(parts, ",")
}

func parseRawEnv(tok string) (rawEnv, error) {
	var r rawEnv
	parts := strings.Split(tok, ",")
	if len(parts) != 5 {
		return r, fmt.Errorf("bad env token %q", tok)
	}
	for i, p := range parts {
		switch {
		case p == "u":
		case strings.HasPrefix(p, "s"):
			b, err := hex.DecodeString(p[1:])
			if err != nil {
				return r, err
			}
			r[i] = sp(string(b))
		default:
			return r, fmt.Errorf("bad env token %q", tok)
		}
	}
	return r, nil
}

type plan struct {
	bits string // intended flags of the row (planning only)
	raw  rawEnv
	sc   []Scenario
}

var knownNamespaces = []string{"admin", "aqua", "btc", "clique", "debug", "eth", "miner", "net", "personal", "rpc", "testing", "txpool", "web3"}

func cfgString(s Scenario) string {
	j := func(xs []string) string {
		if len(xs) == 0 {
			return "-"
		}
		return strings.Join(xs, ",")
	}
	a := "0"
	if s.WSAll {
		a = "1"
	}
	return "h=" + j(s.HTTP) + ";w=" + j(s.WS) + ";a=" + a
}

func parseCfg(cfg string, s *Scenario) {
	for _, part := range strings.Split(cfg, ";") {
		kv := strings.SplitN(part, "=", 2)
		if len(kv) != 2 {
			continue
		}
		var l []string
		if kv[1] != "-" && kv[1] != "" {
			l = strings.Split(kv[1], ",")
		}
		switch kv[0] {
		case "h":
			s.HTTP = l
		case "w":
			s.WS = l
		case "a":
			s.WSAll = kv[1] == "1"
		}
	}
}

var seenX = map[string]bool{}

type childResult struct {
	bits    string // intended flags (planning label)
	env     string // raw environment token used in the case lines
	spec    ChildSpec
	recs    []Rec
	crashes []string
	err     string
}

func main() {
	if p := os.Getenv("VERIF_C18_CHILD"); p != "" {
		childMain(p)
		return
	}
	run := hx.Start()
	defer run.Finish()
	rng := hx.NewRng(run.Seed)

	all := allNamespaces()
	full := func(kind string, trs ...string) Scenario {
		return Scenario{Kind: kind, HTTP: all, WS: all, Sweep: "full", Trs: trs}
	}
	lite := func(kind string) Scenario { return Scenario{Kind: kind, HTTP: all, WS: all, Sweep: "accounts-lite"} }
	acc := func(kind string, trs ...string) Scenario {
		return Scenario{Kind: kind, HTTP: all, WS: all, Sweep: "accounts", Trs: trs}
	}
	def := func(sweep string) Scenario { return Scenario{Kind: "pow", Sweep: sweep} }
	wsall := func(sweep string) Scenario {
		return Scenario{Kind: "pow", HTTP: []string{"personal", "aqua"}, WSAll: true, Sweep: sweep}
	}
	var plans []plan
	if run.Replay != "" {
		raw, sc, err := replayPlan(run.Replay)
		if err != nil {
			run.Violate("replay-unreadable", "replay", run.Replay, err.Error())
			return
		}
		plans = append(plans, plan{"replay", raw, sc})
	} else {
		pick := func(l []*string) *string { return l[rng.Intn(len(l))] }
		add := func(bits string, sc ...Scenario) {
			// the spelling of every variable varies with the seed inside its class (EnvBool accepts several, "" included)
			var raw rawEnv
			for k := 0; k < 5; k++ {
				if bits[k] == '1' {
					raw[k] = pick(latticeOn)
				} else {
					raw[k] = pick(latticeOff)
				}
			}
			plans = append(plans, plan{bits, raw, sc})
		}
		for e := 0; e < 32; e++ {
			bits := ""
			for i := 0; i < 5; i++ {
				if e&(1<<uint(i)) != 0 {
					bits += "1"
				} else {
					bits += "0"
				}
			}
			// one child per heavy scenario so that they run in parallel (children of one env share nothing)
			rot := func(k int) (string, []string) { // one transport gets the full sweep, the others the account-naming methods
				i := int((run.Seed + uint64(k)) % 4)
				var rest []string
				for j, tr := range transports {
					if j != i {
						rest = append(rest, tr)
					}
				}
				return transports[i], rest
			}
			ones := strings.Count(bits[:4], "1")
			switch {
			case run.Thorough():
				for _, tr := range transports {
					add(bits, full("pow", tr))
				}
				tc, rc := rot(e)
				add(bits, full("clique", tc))
				add(bits, acc("clique", rc...), def("accounts"), wsall("accounts"))
			case bits == "00000":
				t1, r1 := rot(0)
				t2, r2 := rot(1)
				add(bits, full("pow", t1))
				add(bits, full("clique", t2))
				add(bits, acc("pow", r1...), def("accounts"), wsall("accounts"))
				add(bits, acc("clique", r2...))
			case bits == "11111":
				t3, r3 := rot(2)
				add(bits, full("pow", t3))
				add(bits, acc("pow", r3...), def("none"), wsall("none"), acc("clique"))
			case ones == 1 || ones == 3:
				add(bits, lite("pow"))
			default:
				add(bits, Scenario{Kind: "pow", HTTP: all, WS: all, Sweep: "none"})
			}
		}
		// the value lattice: everything unset except one variable, at every value. Every row yields an F case (what package rpc read);
		// the rows with an empty or an unusual value also get the exposed sets (thorough: all of them).
		expo := Scenario{Kind: "pow", HTTP: all, WS: all, Sweep: "none"}
		for k := 0; k < 5; k++ {
			for _, v := range append(append([]*string{}, latticeOff...), latticeOn...) {
				var raw rawEnv
				raw[k] = v
				p := plan{"lattice", raw, nil}
				if run.Thorough() || (v != nil && (*v == "" || *v == " 1" || *v == "2")) {
					p.sc = []Scenario{expo}
				}
				plans = append(plans, p)
			}
		}
		// a few mixed rows per run
		both := append(append([]*string{}, latticeOff...), latticeOn...)
		nmix := 3
		if run.Thorough() {
			nmix = 24
		}
		for i := 0; i < nmix; i++ {
			var raw rawEnv
			for k := 0; k < 5; k++ {
				raw[k] = pick(both)
			}
			plans = append(plans, plan{"mixed", raw, []Scenario{{Kind: "pow", HTTP: all, WS: all, Sweep: "accounts-lite"}}})
		}
	}

	self, _ := os.Executable()
	par := runtime.NumCPU() / 2
	if par < 2 {
		par = 2
	}
	if par > 8 {
		par = 8
	}
	sem := make(chan struct{}, par)
	var wg sync.WaitGroup
	results := make([]*childResult, len(plans))
	for i, p := range plans {
		envv := map[string]string{}
		for k := 0; k < 5; k++ {
			if p.raw[k] != nil {
				envv[envVars[k]] = *p.raw[k]
			}
		}
		wg.Add(1)
		go func(i int, p plan, envv map[string]string, seed uint64) {
			defer wg.Done()
			sem <- struct{}{}
			defer func() { <-sem }()
			results[i] = runChild(self, run.OutDir, i, p, envv, seed)
		}(i, p, envv, run.Seed*1000+uint64(i))
	}
	wg.Wait()

	for _, r := range results {
		digest(run, r)
	}
}

func allNamespaces() []string {
	set := map[string]bool{}
	for _, n := range knownNamespaces {
		set[n] = true
	}
	// namespaces of the generated table, when the T-gen step left its JSON behind
	if root := os.Getenv("VERIF_ROOT"); root != "" {
		if b, err := os.ReadFile(filepath.Join(root, ".work", "gen-rpc", "rpc.json")); err == nil {
			var d struct {
				Apis []struct {
					Namespace string `json:"namespace"`
				} `json:"apis"`
			}
			if json.Unmarshal(b, &d) == nil {
				for _, a := range d.Apis {
					set[a.Namespace] = true
				}
			}
		}
	}
	var out []string
	for n := range set {
		out = append(out, n)
	}
	sort.Strings(out)
	return out
}

func runChild(self, outDir string, idx int, p plan, envv map[string]string, seed uint64) *childResult {
	bits, sc := p.bits, p.sc
	res := &childResult{bits: bits, env: p.raw.token()}
	dir := filepath.Join(outDir, fmt.Sprintf("ch-%03d-%s", idx, bits))
	os.RemoveAll(dir)
	os.MkdirAll(dir, 0o700)
	spec := ChildSpec{ID: bits, Seed: seed, Dir: dir, Scenarios: sc}
	for attempt := 0; attempt < 12; attempt++ {
		sp := filepath.Join(dir, fmt.Sprintf("spec-%d.json", attempt))
		b, _ := json.Marshal(spec)
		os.WriteFile(sp, b, 0o644)
		cmd := exec.Command(self)
		var env []string
		for _, e := range os.Environ() {
			k := strings.SplitN(e, "=", 2)[0]
			if strings.HasPrefix(k, "UNSAFE_") || k == "NO_SIGN" || k == "NOSIGN" || k == "NO_KEYS" || k == "VERIF_C18_CHILD" {
				continue
			}
			env = append(env, e)
		}
		for k, v := range envv {
			env = append(env, k+"="+v)
		}
		env = append(env, "VERIF_C18_CHILD="+sp)
		cmd.Env = env
		cmd.Dir = dir
		logf, _ := os.Create(filepath.Join(dir, fmt.Sprintf("child-%d.log", attempt)))
		cmd.Stdout, cmd.Stderr = logf, logf
		done := make(chan error, 1)
		if err := cmd.Start(); err != nil {
			res.err = "spawn: " + err.Error()
			return res
		}
		go func() { done <- cmd.Wait() }()
		var werr error
		select {
		case werr = <-done:
		case <-time.After(15 * time.Minute):
			cmd.Process.Kill()
			werr = fmt.Errorf("child timeout")
		}
		logf.Close()
		recs := readTrail(filepath.Join(dir, "trail.jsonl"))
		finished := len(recs) > 0 && recs[len(recs)-1].T == "done"
		if finished {
			res.recs = recs
			res.spec = spec
			return res
		}
		// crashed or killed: find the call in flight and continue after it
		inflight, scen := "", 0
		doneKeys := map[string]bool{}
		for _, r := range recs {
			switch r.T {
			case "begin":
				inflight, scen = r.Key, r.Scen
			case "call":
				doneKeys[r.Key] = true
				if r.Key == inflight {
					inflight = ""
				}
			case "scen":
				scen = r.Scen
			}
		}
		if inflight == "" {
			// died between two calls (a background goroutine of the node panicked): nobody to blame, continue after the calls done
			res.crashes = append(res.crashes, "(between calls)")
			if len(recs) == 0 || attempt >= 8 {
				res.err = fmt.Sprintf("child %s died outside a call (%v); see %s", bits, werr, dir)
				res.recs = recs
				res.spec = spec
				return res
			}
		} else {
			spec.Skip = append(spec.Skip, inflight)
		}
		if inflight != "" {
			res.crashes = append(res.crashes, inflight)
		}
		for k := range doneKeys {
			if strings.HasPrefix(k, fmt.Sprintf("%d|", scen)) {
				spec.Skip = append(spec.Skip, k)
			}
		}
		sort.Strings(spec.Skip)
		spec.StartAt = scen
	}
	res.err = "child " + bits + " kept crashing"
	res.recs = readTrail(filepath.Join(dir, "trail.jsonl"))
	res.spec = spec
	return res
}

func readTrail(p string) []Rec {
	f, err := os.Open(p)
	if err != nil {
		return nil
	}
	defer f.Close()
	var out []Rec
	sc := bufio.NewScanner(f)
	sc.Buffer(make([]byte, 1<<20), 1<<26)
	for sc.Scan() {
		var r Rec
		if json.Unmarshal(sc.Bytes(), &r) == nil {
			out = append(out, r)
		}
	}
	return out
}

func digest(run *hx.Run, r *childResult) {
	if r == nil {
		return
	}
	if r.err != "" {
		run.Violate("harness-child-failed", "child-failed", map[string]string{"env": r.env}, r.err)
	}
	for _, k := range r.crashes {
		run.Count("call-killed-child")
		if notes, ok := run.Notes["callsThatKilledTheChild"].([]string); !ok || len(notes) < 20 {
			notes, _ := run.Notes["callsThatKilledTheChild"].([]string)
			run.Notes["callsThatKilledTheChild"] = append(notes, r.env+" "+k)
		}
	}
	hook := false
	late := map[string]Rec{}
	for _, rec := range r.recs {
		if rec.T == "late" {
			l := late[rec.Key]
			l.Delta += rec.Delta
			if rec.Evidence != "" {
				if l.Evidence != "" {
					l.Evidence += "+"
				}
				l.Evidence += rec.Evidence
			}
			l.Count = rec.Count
			late[rec.Key] = l
		}
	}
	signedOn := map[string]bool{} // transport -> some signature observed (pow scenarios)
	calledOn := map[string]bool{}
	for _, rec := range r.recs {
		var sc Scenario
		if rec.Scen < len(r.spec.Scenarios) {
			sc = r.spec.Scenarios[rec.Scen]
		}
		cfg := cfgString(sc)
		switch rec.T {
		case "flags":
			hook = rec.Hook
			var parts []string
			for i := range envShort {
				v := "0"
				if rec.Flags[flagVar[i]] {
					v = "1"
				}
				parts = append(parts, envShort[i]+"="+v)
			}
			if len(rec.Flags) != len(flagVar) {
				parts = append(parts, fmt.Sprintf("nflags=%d", len(rec.Flags)))
			}
			if id := "F " + r.env; !seenX[id] {
				seenX[id] = true
				run.Case(id, strings.Join(parts, " "))
				run.Count("env-rows")
			}
			run.Notes["hookPresent"] = hook
		case "exposed":
			id := fmt.Sprintf("X %s %s %s %s", sc.Kind, r.env, cfg, rec.Tr)
			if seenX[id] {
				continue
			}
			seenX[id] = true
			l := "-"
			if len(rec.List) > 0 {
				l = strings.Join(rec.List, ",")
			}
			run.Case(id, l)
			run.Count("exposure-sets")
			run.Count(fmt.Sprintf("exposed-methods:%s:%s", sc.Kind, rec.Tr))
		case "modules":
			id := fmt.Sprintf("M %s %s %s %s", sc.Kind, r.env, cfg, rec.Tr)
			if seenX[id] {
				continue
			}
			seenX[id] = true
			l := "-"
			if len(rec.List) > 0 {
				l = strings.Join(rec.List, ",")
			}
			run.Case(id, l)
		case "note":
			run.Count("note")
			if rec.Msg != "" && (strings.HasPrefix(rec.Msg, "scenario failed") || strings.Contains(rec.Msg, "not started") || strings.Contains(rec.Msg, "rpc_modules failed")) {
				run.Violate("harness-scenario-failed", "scenario-failed", map[string]interface{}{"env": r.env, "scenario": sc}, rec.Tr+" "+rec.Msg)
			}
		case "call":
			sep := "="
			if rec.IsSub {
				sep = "~"
			}
			m := rec.Ns + "." + rec.Name + sep + rec.Rcvr + "." + rec.GoName
			if l, ok := late[rec.Key]; ok {
				rec.Delta += l.Delta
				rec.Count = l.Count
				if l.Evidence != "" {
					if rec.Evidence != "" {
						rec.Evidence += "+"
					}
					rec.Evidence += l.Evidence
				}
				run.Count("late-mining-attributed")
			}
			onlySealed := true
			if rec.Evidence != "" {
				set := map[string]bool{}
				for _, e := range strings.Split(rec.Evidence, "+") {
					if e != "" {
						set[e] = true
					}
				}
				var toks []string
				for e := range set {
					toks = append(toks, e)
					if e != "sealed" {
						onlySealed = false
					}
				}
				sort.Strings(toks)
				rec.Evidence = strings.Join(toks, "+")
			}
			obs := "quiet"
			if rec.Evidence != "" {
				obs = "signed"
			} else if rec.Delta > 0 {
				obs = "entered"
			}
			ev := rec.Evidence
			if ev == "" {
				ev = "-"
			}
			run.Current(m)
			run.Case(fmt.Sprintf("S %s %s %s %s %s %s", sc.Kind, r.env, cfg, rec.Tr, m, rec.Variant),
				fmt.Sprintf("%s %s %s %d", obs, rec.Outcome, ev, rec.Delta))
			run.Count("calls")
			run.Count("outcome:" + rec.Outcome)
			run.Count("obs:" + obs)
			if obs != "quiet" {
				run.Count(fmt.Sprintf("%s:%s.%s", obs, rec.Ns, rec.Name))
			}
			if sc.Kind == "pow" {
				calledOn[rec.Tr] = true
				if obs == "signed" {
					signedOn[rec.Tr] = true
				}
			}
			// a block seal is produced asynchronously (the miner signs, the block is inserted later): for it only the cumulative counter is
			// meaningful; every other kind of evidence is part of this call's own result
			if hook && rec.Evidence != "" && ((onlySealed && rec.Count == 0) || (!onlySealed && rec.Delta == 0)) {
				run.Violate("hook-miss", "hook-miss "+m, map[string]interface{}{"env": r.env, "scenario": sc, "transport": rec.Tr, "method": m, "variant": rec.Variant, "args": rec.Args},
					"a keystore signature was observed ("+rec.Evidence+") but the verif signing counter did not move: a signing path bypasses the hooked entry points")
			}
		}
	}
	// the harness must be able to see signatures: with every flag set, every transport that was swept must have shown one
	if r.bits == "11111" {
		for _, tr := range transports {
			if calledOn[tr] && !signedOn[tr] {
				run.Violate("harness-blind", "harness-blind "+tr, map[string]string{"env": r.env, "transport": tr},
					"all opt-in variables set but no signature was observed on "+tr+": the harness cannot observe signing (or opting in does not enable it)")
			}
		}
	}
}

// replayPlan rebuilds a one-call plan from a replay file whose input is an S/X case line.
func replayPlan(path string) (rawEnv, []Scenario, error) {
	b, err := os.ReadFile(path)
	if err != nil {
		return rawEnv{}, nil, err
	}
	var rp struct {
		Input interface{} `json:"input"`
		Sig   string      `json:"sig"`
	}
	if err := json.Unmarshal(b, &rp); err != nil {
		return rawEnv{}, nil, err
	}
	line, _ := rp.Input.(string)
	if line == "" {
		line = rp.Sig
	}
	f := strings.Fields(line)
	if len(f) == 2 && f[0] == "F" {
		raw, err := parseRawEnv(f[1])
		return raw, nil, err
	}
	if len(f) >= 5 && (f[0] == "X" || f[0] == "M") {
		sc := Scenario{Kind: f[1], Sweep: "none"}
		parseCfg(f[3], &sc)
		raw, err := parseRawEnv(f[2])
		return raw, []Scenario{sc}, err
	}
	if len(f) >= 7 && f[0] == "S" {
		sc := Scenario{Kind: f[1], Sweep: "only"}
		parseCfg(f[3], &sc)
		m := f[5]
		i := strings.IndexAny(m, "=~")
		nsname := m
		if i >= 0 {
			nsname = m[:i]
		}
		j := strings.Index(nsname, ".")
		if j < 0 {
			return rawEnv{}, nil, fmt.Errorf("bad method in %q", line)
		}
		sc.Only = &OnlyCall{Transport: f[4], Ns: nsname[:j], Name: nsname[j+1:], Variant: f[6]}
		raw, err := parseRawEnv(f[2])
		return raw, []Scenario{sc}, err
	}
	return rawEnv{}, nil, fmt.Errorf("replay input is not an S/X/M case line: %q", line)
}

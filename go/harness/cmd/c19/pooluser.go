package main

// Anchored feed user: core.TxPool's transaction feed (core/tx_pool.go, one of the property's anchors).
//
// Feed.Send blocks until every subscriber has taken the value ("slow subscribers are not dropped"), so a user that calls
// Send while holding a lock that its subscribers also need can wedge itself although the feed is correct.  The pool's
// subscribers do look at the pool between two receives (opt/aquastats calls Stats per event, the miner calls Pending), and the
// pool sends TxPreEvents from inside add()/promoteTx() with pool.mu held — which is why those Sends are spawned (`go ...Send`).
// This section subscribes an UNBUFFERED (or 1-slot) channel whose consumer calls pool.Stats() / pool.Pending() for every
// event and feeds the pool batches of fresh transactions, single replacements and batches with >= 2 replacements
// (same sender+nonce, price bump met).  Only one outcome is judged: a call (AddRemotes/AddLocals/Stats/Stop) that NEVER
// returns (watchdog 20 s, several orders of magnitude above the milliseconds these calls take under any load).

import (
	"fmt"
	"math/big"
	"strconv"
	"sync"
	"sync/atomic"
	"time"

	"gitlab.com/aquachain/aquachain/aqua/event"
	"gitlab.com/aquachain/aquachain/aquadb"
	"gitlab.com/aquachain/aquachain/common"
	"gitlab.com/aquachain/aquachain/core"
	"gitlab.com/aquachain/aquachain/core/state"
	"gitlab.com/aquachain/aquachain/core/types"
	"gitlab.com/aquachain/aquachain/crypto"
	"gitlab.com/aquachain/aquachain/params"
	"verifharness/hx"
)

type puChain struct {
	statedb  *state.StateDB
	gasLimit uint64
	headFeed *event.Feed
}

func (bc *puChain) CurrentBlock() *types.Block {
	return types.NewBlock(&types.Header{GasLimit: bc.gasLimit}, nil, nil, nil)
}
func (bc *puChain) GetBlock(hash common.Hash, number uint64) *types.Block { return bc.CurrentBlock() }
func (bc *puChain) StateAt(common.Hash) (*state.StateDB, error)           { return bc.statedb, nil }
func (bc *puChain) SubscribeChainHeadEvent(ch chan<- core.ChainHeadEvent) event.Subscription {
	return bc.headFeed.Subscribe(ch)
}

const poolUserTimeout = 20 * time.Second

type poolUserPlan struct {
	Seed     uint64   `json:"seed"`
	Round    int      `json:"round"`
	ChanCap  int      `json:"subscriber_chan_cap"`
	Callback string   `json:"subscriber_calls"`
	Local    bool     `json:"add_locals"`
	Batches  []string `json:"batches"`
}

// within runs f with the watchdog; false = f never returned (the goroutine is leaked).
func within(d time.Duration, f func()) bool {
	done := make(chan struct{})
	go func() { f(); close(done) }()
	select {
	case <-done:
		return true
	case <-time.After(d):
		return false
	}
}

// poolUserRound returns "" or a description of the call that never returned.
func poolUserRound(run *hx.Run, round int, rr *hx.Rng) (poolUserPlan, string) {
	plan := poolUserPlan{Seed: run.Seed, Round: round}
	db := aquadb.NewMemDatabase()
	statedb, _ := state.New(common.Hash{}, state.NewDatabase(db))
	nKeys := 3 + rr.Intn(2)
	type acct struct {
		sign  func(nonce uint64, price int64) *types.Transaction
		nonce uint64 // next fresh nonce
		price map[uint64]int64
	}
	var accts []*acct
	for i := 0; i < nKeys; i++ {
		k := crypto.ToECDSAUnsafe(crypto.Keccak256([]byte("verif-c19-pool-" + strconv.Itoa(int(run.Seed)) + "-" + strconv.Itoa(round) + "-" + strconv.Itoa(i))))
		statedb.AddBalance(crypto.PubkeyToAddress(k.PubKey()), big.NewInt(1_000_000_000_000))
		a := &acct{price: map[uint64]int64{}}
		a.sign = func(nonce uint64, price int64) *types.Transaction {
			tx, err := types.SignTx(types.NewTransaction(nonce, common.Address{0xc1, 0x9}, big.NewInt(100), 100000, big.NewInt(price), nil), types.HomesteadSigner{}, k)
			if err != nil {
				panic(err)
			}
			return tx
		}
		accts = append(accts, a)
	}
	chain := &puChain{statedb, 10_000_000, new(event.Feed)}
	cfg := core.TxPoolConfig{Journal: "", Rejournal: time.Hour, PriceLimit: 1, PriceBump: 10, AccountSlots: 16, GlobalSlots: 4096,
		AccountQueue: 64, GlobalQueue: 1024, Lifetime: time.Hour}
	pool := core.NewTxPool(cfg, params.TestChainConfig, chain)

	plan.ChanCap = []int{0, 0, 0, 1}[rr.Intn(4)]
	plan.Callback = []string{"Stats", "Stats", "Pending", "Stats+Pending"}[rr.Intn(4)]
	plan.Local = rr.Intn(4) == 0
	events := make(chan core.TxPreEvent, plan.ChanCap)
	sub := pool.SubscribeTxPreEvent(events)
	var seen int64
	quit := make(chan struct{})
	var consumer sync.WaitGroup
	consumer.Add(1)
	go func() {
		defer consumer.Done()
		for {
			select {
			case <-events:
				// look at the pool before taking the next event, as the stats reporter and the miner do
				switch plan.Callback {
				case "Stats":
					pool.Stats()
				case "Pending":
					pool.Pending()
				default:
					pool.Stats()
					pool.Pending()
				}
				atomic.AddInt64(&seen, 1)
			case <-quit:
				return
			}
		}
	}()

	stuck := ""
	submit := func(name string, txs types.Transactions) bool {
		plan.Batches = append(plan.Batches, fmt.Sprintf("%s(%d)", name, len(txs)))
		run.Current(fmt.Sprintf("pool-user round %d %s", round, name))
		ok := within(poolUserTimeout, func() {
			if plan.Local {
				pool.AddLocals(txs)
			} else {
				pool.AddRemotes(txs)
			}
		})
		if !ok {
			stuck = fmt.Sprintf("TxPool.Add%s of batch %q did not return within %v while an unbuffered TxPreEvent subscriber calls pool.%s() per event",
				map[bool]string{true: "Locals", false: "Remotes"}[plan.Local], name, poolUserTimeout, plan.Callback)
			return false
		}
		run.Count("pool-user:batch:" + name)
		return true
	}
	fresh := func(a *acct) *types.Transaction {
		tx := a.sign(a.nonce, 1)
		a.price[a.nonce] = 1
		a.nonce++
		return tx
	}
	replace := func(a *acct, nonce uint64) *types.Transaction {
		p := a.price[nonce]*2 + 1 // well above the 10% bump
		a.price[nonce] = p
		return a.sign(nonce, p)
	}

	steps := []func() bool{
		func() bool { // fresh executable transactions of every account
			var txs types.Transactions
			for _, a := range accts {
				txs = append(txs, fresh(a))
			}
			return submit("fresh", txs)
		},
		func() bool { // a single replacement
			return submit("one-replacement", types.Transactions{replace(accts[0], 0)})
		},
		func() bool { // one batch with >= 2 replacements (several accounts), plus sometimes a fresh one in between
			var txs types.Transactions
			n := 2 + rr.Intn(len(accts)-1)
			for i := 0; i < n; i++ {
				txs = append(txs, replace(accts[i], 0))
				if i == 0 && rr.Bool() {
					txs = append(txs, fresh(accts[len(accts)-1]))
				}
			}
			return submit("replacements", txs)
		},
		func() bool { // two replacements of the SAME account (nonce 0 and, if present, nonce 1) in one batch
			a := accts[len(accts)-1]
			txs := types.Transactions{replace(a, 0)}
			if a.nonce > 1 {
				txs = append(txs, replace(a, 1))
			} else {
				txs = append(txs, replace(accts[0], 0))
			}
			return submit("replacements-same-batch", txs)
		},
	}
	for _, st := range steps {
		if !st() {
			break
		}
		// the pool must still answer
		if !within(poolUserTimeout, func() { pool.Stats() }) {
			stuck = "TxPool.Stats() did not return within " + poolUserTimeout.String() + " after a batch"
			break
		}
	}
	if stuck != "" {
		return plan, stuck // the pool is wedged: its goroutines are leaked, nothing more can be done with it
	}
	// let the spawned Sends drain, then shut down
	deadline := time.Now().Add(2 * time.Second)
	for time.Now().Before(deadline) && atomic.LoadInt64(&seen) < int64(len(accts)) {
		time.Sleep(200 * time.Microsecond)
	}
	if !within(poolUserTimeout, func() { sub.Unsubscribe() }) {
		return plan, "Unsubscribe of the TxPreEvent subscription did not return"
	}
	close(quit)
	consumer.Wait()
	if !within(poolUserTimeout, func() { pool.Stop() }) {
		return plan, "TxPool.Stop() did not return"
	}
	run.Hist["pool-user:events-seen"] += int(atomic.LoadInt64(&seen))
	return plan, ""
}

func poolUserSection(run *hx.Run) {
	rounds := 60
	if run.Thorough() {
		rounds = 1500
	}
	executed := 0
	for round := 1; round <= rounds; round++ {
		plan, stuck := poolUserRound(run, round, hx.NewRng(run.Seed*9000011+uint64(round)))
		executed++
		if stuck != "" {
			run.Violate("feed-user-deadlock", "feed-user-deadlock:txpool", map[string]interface{}{"pool_user_plan": plan}, stuck)
			break // one wedged pool is enough (each costs the full watchdog)
		}
	}
	run.Notes["pool_user_rounds"] = executed
}

package main

// Race-detector sub-run (property clause "no interleaving ... races"; observe_at: race detector).
//
// check.py builds one harness binary per run (with -race only in the thorough tier).  So that the QUICK tier also sees
// data races, the harness re-builds itself with `go build -race` into its work directory (same generated modfile, same
// overlay, same tree under test) and runs that child in `-racechild` mode for a few seconds:
//   * first use: thousands of fresh zero-value Feeds, each with first Send || first Subscribe || another first Send ||
//     another first Subscribe, released together by a start gate (lazy initialisation: once.Do(init), f.etype);
//   * fresh SubscriptionScopes with Track || Close || Count || wrapper Unsubscribe;
//   * fresh TypeMuxes with Subscribe || Post || Unsubscribe || Stop, and a slice of the TypeMux rounds;
//   * a slice of the ordinary scheduled rounds.
// A report of the race detector ("WARNING: DATA RACE", exit status 66) is a violation of kind `data-race`; the detail
// carries the top frames of the first report.  The judgement does not depend on the schedule beyond "the detector saw two
// conflicting accesses not ordered by happens-before in this execution".

import (
	"bytes"
	"flag"
	"fmt"
	"os"
	"os/exec"
	"path/filepath"
	"regexp"
	"strings"
	"sync"
	"time"

	"gitlab.com/aquachain/aquachain/aqua/event"
	"verifharness/hx"
)

var (
	raceChild  = flag.Bool("racechild", false, "internal: run only the race-detector sections (binary built with -race)")
	raceBudget = flag.Int("racebudget", 10, "internal: seconds for the race-detector sections")
)

// firstUse exercises the lazy initialisation of one fresh zero-value Feed from several goroutines at once.
func firstUse(rng *hx.Rng) {
	var f event.Feed
	gate := make(chan struct{})
	var wg sync.WaitGroup
	chA, chB := make(chan int, 8), make(chan int, 8)
	var subA, subB event.Subscription
	acts := []func(){
		func() { f.Send(1) },
		func() { subA = f.Subscribe(chA) },
		func() { f.Send(2) },
		func() { subB = f.Subscribe(chB) },
	}
	// vary which of the calls take part and in which order the goroutines are created
	n := 2 + rng.Intn(3)
	off := rng.Intn(len(acts))
	for i := 0; i < n; i++ {
		a := acts[(off+i)%len(acts)]
		wg.Add(1)
		go func() {
			defer wg.Done()
			<-gate
			a()
		}()
	}
	close(gate)
	wg.Wait()
	f.Send(3)
	if subA != nil {
		subA.Unsubscribe()
	}
	if subB != nil {
		subB.Unsubscribe()
	}
}

// scopeUse exercises a fresh SubscriptionScope: Track || Close || Count || wrapper Unsubscribe.
func scopeUse(rng *hx.Rng) {
	var f event.Feed
	var sc event.SubscriptionScope
	gate := make(chan struct{})
	var wg sync.WaitGroup
	pre := sc.Track(f.Subscribe(make(chan int, 4)))
	unsubNew := rng.Bool()
	acts := []func(){
		func() {
			if w := sc.Track(f.Subscribe(make(chan int, 4))); w != nil && unsubNew {
				w.Unsubscribe()
			}
		},
		func() { sc.Close() },
		func() { _ = sc.Count() },
		func() { pre.Unsubscribe() },
		func() { f.Send(1) },
	}
	n := 2 + rng.Intn(4)
	off := rng.Intn(len(acts))
	for i := 0; i < n; i++ {
		a := acts[(off+i)%len(acts)]
		wg.Add(1)
		go func() {
			defer wg.Done()
			<-gate
			a()
		}()
	}
	close(gate)
	wg.Wait()
	sc.Close()
}

// runRaceChild is the body of the `-racechild` process.
func runRaceChild(run *hx.Run, hook bool) {
	budget := time.Duration(*raceBudget) * time.Second
	rng := hx.NewRng(run.Seed ^ 0x5ace)
	start := time.Now()
	nFirst, nScope, nMux, nRounds := 0, 0, 0, 0
	for time.Since(start) < budget*45/100 {
		run.Current("race first-use")
		for i := 0; i < 50; i++ {
			firstUse(rng)
			nFirst++
		}
	}
	for time.Since(start) < budget*6/10 {
		run.Current("race scopes")
		for i := 0; i < 50; i++ {
			scopeUse(rng)
			nScope++
		}
	}
	for time.Since(start) < budget*8/10 {
		run.Current("race mux")
		for i := 0; i < 50; i++ {
			muxUse(rng)
			nMux++
		}
	}
	for round := 1; time.Since(start) < budget*9/10; round++ {
		run.Current(fmt.Sprintf("race mux round %d", round))
		if res := runMuxRound(run.Seed, round, hx.NewRng(run.Seed*7000003+uint64(round))); res.hang {
			break
		}
		nRounds++
	}
	for round := 1; time.Since(start) < budget; round++ {
		run.Current(fmt.Sprintf("race round %d", round))
		res := runRound(run, run.Seed, round, hx.NewRng(run.Seed*1000003+uint64(round)), hook)
		nRounds++
		if res.hang {
			break
		}
	}
	curSched.Store(nil)
	fmt.Printf("racechild: first-use feeds=%d scopes=%d muxes=%d rounds=%d\n", nFirst, nScope, nMux, nRounds)
}

var raceAddr = regexp.MustCompile(`0x[0-9a-f]+|goroutine \d+|\+0x[0-9a-f]+|\[[a-z ]+\]`)

// raceSubRun builds the harness with -race and runs it as a child; returns after reporting into run.
func raceSubRun(run *hx.Run) {
	root := os.Getenv("VERIF_ROOT")
	work, _ := filepath.Abs(run.OutDir)
	modfile := filepath.Join(work, "go.mod")
	if root == "" {
		run.Notes["race_subrun"] = "skipped: VERIF_ROOT not set (stand-alone invocation)"
		return
	}
	if _, err := os.Stat(modfile); err != nil {
		run.Notes["race_subrun"] = "skipped: no generated modfile in the output directory (stand-alone invocation)"
		return
	}
	fail := func(what, out string) {
		run.Violate("race-subrun-failed", "race-subrun-failed:"+what, map[string]interface{}{"seed": run.Seed},
			what+": "+tail(out, 1500))
		run.Notes["race_subrun"] = "failed: " + what
	}
	// keep the stall watchdog of the parent quiet while building / waiting for the child
	stopTick := make(chan struct{})
	defer close(stopTick)
	go func() {
		for {
			select {
			case <-stopTick:
				return
			case <-time.After(3 * time.Second):
				run.Current("race sub-run")
			}
		}
	}()
	bin := filepath.Join(work, "c19-race")
	args := []string{"build", "-race", "-modfile", modfile, "-tags", "verif"}
	if ov := filepath.Join(work, "overlay.json"); fileExists(ov) {
		args = append(args, "-overlay", ov)
	}
	args = append(args, "-o", bin, "./cmd/c19")
	t0 := time.Now()
	cmd := exec.Command("go", args...)
	cmd.Dir = filepath.Join(root, "go", "harness")
	if out, err := cmd.CombinedOutput(); err != nil {
		fail("go build -race of the harness failed", string(out))
		return
	}
	buildS := time.Since(t0).Seconds()
	budget := 10
	if run.Thorough() {
		budget = 60
	}
	childOut := filepath.Join(work, "racechild")
	t1 := time.Now()
	child := exec.Command(bin, "-racechild", "-racebudget", fmt.Sprint(budget), "-seed", fmt.Sprint(run.Seed), "-tier", run.Tier, "-out", childOut)
	child.Env = append(os.Environ(), "GORACE=halt_on_error=0 exitcode=66 history_size=2")
	var buf bytes.Buffer
	child.Stdout, child.Stderr = &buf, &buf
	done := make(chan error, 1)
	if err := child.Start(); err != nil {
		fail("cannot start the -race child", err.Error())
		return
	}
	go func() { done <- child.Wait() }()
	var err error
	select {
	case err = <-done:
	case <-time.After(time.Duration(budget+90) * time.Second):
		child.Process.Kill()
		fail("the -race child did not finish", buf.String())
		return
	}
	out := buf.String()
	nRep := strings.Count(out, "WARNING: DATA RACE")
	run.Notes["race_subrun"] = map[string]interface{}{"build_s": round1(buildS), "run_s": round1(time.Since(t1).Seconds()),
		"budget_s": budget, "reports": nRep, "summary": lastLineWith(out, "racechild:")}
	run.Hist["race-subrun:reports"] = nRep
	if nRep > 0 {
		rep := out[strings.Index(out, "WARNING: DATA RACE"):]
		if i := strings.Index(rep[1:], "=================="); i >= 0 {
			rep = rep[:i+1]
		}
		var frames []string
		for _, ln := range strings.Split(rep, "\n") {
			ln = strings.TrimSpace(ln)
			if ln == "" {
				continue
			}
			frames = append(frames, ln)
			if len(frames) >= 16 {
				break
			}
		}
		// stable signature: the access kinds and the top function of each of the two stacks
		var sigParts []string
		lines := strings.Split(rep, "\n")
		for i, ln := range lines {
			t := strings.TrimSpace(ln)
			if (strings.HasPrefix(t, "Write at") || strings.HasPrefix(t, "Read at") || strings.HasPrefix(t, "Previous write at") ||
				strings.HasPrefix(t, "Previous read at")) && i+1 < len(lines) {
				kind := strings.Fields(t)[0]
				if kind == "Previous" {
					kind = "prev-" + strings.Fields(t)[1]
				}
				sigParts = append(sigParts, strings.ToLower(kind)+"@"+strings.TrimSpace(raceAddr.ReplaceAllString(lines[i+1], "")))
			}
		}
		run.Violate("data-race", "data-race:"+strings.Join(sigParts, "|"),
			map[string]interface{}{"seed": run.Seed, "section": "race sub-run (first-use feeds, scopes, scheduled rounds under -race)", "reports": nRep},
			fmt.Sprintf("race detector: %d report(s); first: %s", nRep, strings.Join(frames, " | ")))
		return
	}
	if err != nil {
		fail("the -race child exited abnormally ("+err.Error()+")", out)
	}
}

func fileExists(p string) bool { _, err := os.Stat(p); return err == nil }
func round1(x float64) float64 { return float64(int(x*10)) / 10 }
func tail(s string, n int) string {
	if len(s) > n {
		return s[len(s)-n:]
	}
	return s
}
func lastLineWith(s, sub string) string {
	r := ""
	for _, ln := range strings.Split(s, "\n") {
		if strings.Contains(ln, sub) {
			r = ln
		}
	}
	return r
}

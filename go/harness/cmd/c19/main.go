// Harness for C19 (event.Feed delivers every value exactly once to every live subscriber).
//
// Drives the REAL aqua/event.Feed with concurrent senders, buffered and unbuffered subscribers (fast, slow, lazy and
// "dead" receivers), unsubscription at random points — including while a Send is blocked on that very subscriber —,
// late subscribers, double Unsubscribe, SubscriptionScope Track/Close, under plain, randomly perturbed, priority
// (PCT-style) and gated schedules derived from the seed.  When the tree under test carries the `verif` yield hook
// (aqua/event/feed_verif.go) the perturbation also acts at the five points inside Send/remove; without it only at the
// harness' own call boundaries.
//
// Every round logs the observable history (send begin/end with nsent, subscribe/unsubscribe begin/end, "channel seen
// empty", each delivery) in one global log (= logical clock).  The history is judged against the Spec of the property
// twice: directly here (judge) and by the Lean driver (Aqv.FeedSpec.judge) on the emitted case line.  The judgement
// depends only on the observed history, never on which schedule produced it; two runs are never compared.
package main

import (
	"encoding/json"
	"fmt"
	"os"
	"runtime"
	"sort"
	"strconv"
	"strings"
	"sync"
	"sync/atomic"
	"time"

	"gitlab.com/aquachain/aquachain/aqua/event"
	"verifharness/hx"
)

// ---------------------------------------------------------------------------------------------------------------------
// global log = logical clock

type tlog struct {
	mu sync.Mutex
	ev []string
}

func (l *tlog) add(s string) {
	l.mu.Lock()
	l.ev = append(l.ev, s)
	l.mu.Unlock()
}

// reserve takes a log position now; fill decides later what (if anything) happened "after this position".
func (l *tlog) reserve() int {
	l.mu.Lock()
	l.ev = append(l.ev, "")
	i := len(l.ev) - 1
	l.mu.Unlock()
	return i
}
func (l *tlog) fill(i int, s string) {
	l.mu.Lock()
	l.ev[i] = s
	l.mu.Unlock()
}
func (l *tlog) snapshot() []string {
	l.mu.Lock()
	defer l.mu.Unlock()
	out := make([]string, 0, len(l.ev))
	for _, e := range l.ev {
		if e != "" {
			out = append(out, e)
		}
	}
	return out
}

// ---------------------------------------------------------------------------------------------------------------------
// schedule perturbation

const (
	modePlain = iota
	modeGosched
	modePrio
	modeGate
	nModes
)

var modeNames = []string{"plain", "gosched", "prio", "gate"}

type sched struct {
	mode     int
	p        int // probability (per 1000) of perturbing at a yield
	rmu      sync.Mutex
	rng      *hx.Rng
	ticks    uint64
	pmu      sync.Mutex
	prio     map[uint64]int
	changeAt [3]uint64
}

var curSched atomic.Pointer[sched]
var yieldCounts [16]uint64

func (s *sched) rand(n int) int {
	s.rmu.Lock()
	v := s.rng.Intn(n)
	s.rmu.Unlock()
	return v
}

func gid() uint64 {
	var buf [64]byte
	n := runtime.Stack(buf[:], false)
	// "goroutine 123 ["
	f := strings.Fields(string(buf[:n]))
	if len(f) < 2 {
		return 0
	}
	id, _ := strconv.ParseUint(f[1], 10, 64)
	return id
}

func (s *sched) rank(g uint64, demote bool) int {
	s.pmu.Lock()
	defer s.pmu.Unlock()
	r, ok := s.prio[g]
	if !ok {
		r = s.rand(4)
		s.prio[g] = r
	}
	if demote {
		r = 6
		s.prio[g] = r
	}
	return r
}

// yield is called at the five hook points inside Feed.Send / Feed.remove (points 1..5, only when the hook exists) and at
// the harness' own call boundaries (points 10..15).
func (s *sched) yield(point int) {
	if point >= 0 && point < len(yieldCounts) {
		atomic.AddUint64(&yieldCounts[point], 1)
	}
	t := atomic.AddUint64(&s.ticks, 1)
	switch s.mode {
	case modePlain:
	case modeGosched:
		if r := s.rand(1000); r < s.p {
			for i := 0; i <= r%3; i++ {
				runtime.Gosched()
			}
		}
	case modePrio:
		g := gid()
		r := s.rank(g, t == s.changeAt[0] || t == s.changeAt[1] || t == s.changeAt[2])
		if r > 0 && s.rand(1000) < s.p {
			for i := 0; i < 2*r; i++ {
				runtime.Gosched()
			}
			if r >= 3 {
				time.Sleep(time.Duration(r*15) * time.Microsecond)
			}
		}
	case modeGate:
		if r := s.rand(1000); r < s.p {
			k := uint64(1 + r%3)
			deadline := time.Now().Add(time.Duration(100+r%400) * time.Microsecond)
			for atomic.LoadUint64(&s.ticks) < t+k && time.Now().Before(deadline) {
				runtime.Gosched()
			}
		}
	}
}

func hookYield(point int) {
	if s := curSched.Load(); s != nil {
		s.yield(point)
	}
}

// waitTicks blocks until the round's yield counter reaches k or the timeout passes (a trigger for "random points").
func (s *sched) waitTicks(k uint64, max time.Duration) {
	deadline := time.Now().Add(max)
	for atomic.LoadUint64(&s.ticks) < k && time.Now().Before(deadline) {
		runtime.Gosched()
	}
}

// ---------------------------------------------------------------------------------------------------------------------
// one round

const (
	rcvFast = iota
	rcvSlow
	rcvLazy
	rcvDead // never receives until its Unsubscribe has returned (a Send can only get past it through removeSub)
)

type subSt struct {
	id      int
	cap     int
	ch      chan int
	sub     event.Subscription
	mode    int
	tracked bool
	stop    chan struct{}
	release chan struct{} // closed when a dead/lazy receiver may start
	relOnce sync.Once
	exited  chan struct{}
}

func (s *subSt) releaseRecv() { s.relOnce.Do(func() { close(s.release) }) }

type roundPlan struct {
	Seed     uint64 `json:"seed"`
	Round    int    `json:"round"`
	Mode     string `json:"mode"`
	Procs    int    `json:"procs"`
	Subs     []int  `json:"sub_caps"`
	RcvModes []int  `json:"recv_modes"`
	Senders  []int  `json:"sends_per_sender"`
	Unsubs   []int  `json:"unsub_subs"`
	Late     int    `json:"late_subscribers"`
	Scope    bool   `json:"scope_close"`
}

type roundResult struct {
	trace   []string
	hang    bool
	stateIn string
	stateOK bool
	plan    roundPlan
	misc    []string // harness-level API observations that contradict the documented behaviour
}

var capChoices = []int{0, 0, 0, 1, 1, 2, 4}

func runRound(run *hx.Run, seed uint64, round int, rr *hx.Rng, hook bool) roundResult {
	lg := &tlog{}
	sc := &sched{mode: rr.Intn(nModes), p: 150 + rr.Intn(600), rng: rr.Fork(7), prio: map[uint64]int{}}
	for i := range sc.changeAt {
		sc.changeAt[i] = uint64(5 + rr.Intn(120))
	}
	curSched.Store(sc)
	var feed event.Feed
	var scope event.SubscriptionScope
	plan := roundPlan{Seed: seed, Round: round, Mode: modeNames[sc.mode], Procs: runtime.GOMAXPROCS(0)}

	var subsMu sync.Mutex
	var subs []*subSt
	chanID := map[interface{}]int{}
	var recvWG sync.WaitGroup
	nextSub := 0

	startReceiver := func(s *subSt) {
		recvWG.Add(1)
		go func() {
			defer recvWG.Done()
			defer close(s.exited)
			if s.mode == rcvLazy || s.mode == rcvDead {
				select {
				case <-s.release:
				case <-s.stop:
				}
			}
			for {
				idx := lg.reserve()
				if len(s.ch) == 0 {
					lg.fill(idx, "em"+strconv.Itoa(s.id))
				}
				select {
				case v := <-s.ch:
					lg.add("rv" + strconv.Itoa(s.id) + ":" + strconv.Itoa(v))
				case <-s.stop:
					for {
						select {
						case v := <-s.ch:
							lg.add("rv" + strconv.Itoa(s.id) + ":" + strconv.Itoa(v))
						default:
							return
						}
					}
				}
				if s.mode == rcvSlow {
					sc.yield(14)
					if sc.rand(3) == 0 {
						time.Sleep(time.Duration(10+sc.rand(60)) * time.Microsecond)
					}
				} else {
					sc.yield(15)
				}
			}
		}()
	}

	newSub := func(cp, mode int, tracked bool) *subSt {
		subsMu.Lock()
		nextSub++
		s := &subSt{id: nextSub, cap: cp, ch: make(chan int, cp), mode: mode, tracked: tracked,
			stop: make(chan struct{}), release: make(chan struct{}), exited: make(chan struct{})}
		subs = append(subs, s)
		chanID[interface{}(s.ch)] = s.id
		subsMu.Unlock()
		return s
	}
	doSubscribe := func(s *subSt) {
		sc.yield(10)
		lg.add("sb" + strconv.Itoa(s.id))
		inner := feed.Subscribe(s.ch)
		var sub event.Subscription = inner
		tracked := s.tracked
		if tracked {
			if w := scope.Track(inner); w != nil {
				sub = w
			} else {
				tracked = false // scope already closed: Track returns nil and does not take ownership
			}
		}
		subsMu.Lock()
		s.sub, s.tracked = sub, tracked
		subsMu.Unlock()
		lg.add("se" + strconv.Itoa(s.id))
		startReceiver(s)
	}
	doUnsub := func(s *subSt) {
		sc.yield(12)
		lg.add("ub" + strconv.Itoa(s.id))
		s.sub.Unsubscribe()
		lg.add("ue" + strconv.Itoa(s.id))
		s.releaseRecv()
	}

	// ---- plan
	useScope := rr.Intn(4) == 0
	plan.Scope = useScope
	nInit := 1 + rr.Intn(5)
	var initial []*subSt
	for i := 0; i < nInit; i++ {
		cp := capChoices[rr.Intn(len(capChoices))]
		mode := []int{rcvFast, rcvFast, rcvSlow, rcvLazy, rcvDead}[rr.Intn(5)]
		s := newSub(cp, mode, useScope && rr.Intn(2) == 0)
		initial = append(initial, s)
		plan.Subs = append(plan.Subs, cp)
		plan.RcvModes = append(plan.RcvModes, mode)
	}
	concurrentInitial := rr.Intn(5) == 0 // subscribe the initial set concurrently with the senders
	if !concurrentInitial {
		for _, s := range initial {
			doSubscribe(s)
		}
	}
	nSenders := 1 + rr.Intn(3)
	nextVal := 100
	type sender struct{ vals []int }
	var senders []sender
	for i := 0; i < nSenders; i++ {
		k := 1 + rr.Intn(4)
		var vs []int
		for j := 0; j < k; j++ {
			vs = append(vs, nextVal)
			nextVal++
		}
		senders = append(senders, sender{vs})
		plan.Senders = append(plan.Senders, k)
	}
	// which subscriptions get unsubscribed individually (every dead receiver must be: otherwise Send could never finish)
	type unsubPlan struct {
		s      *subSt
		at     uint64
		double bool
	}
	var unsubs []unsubPlan
	for _, s := range initial {
		must := s.mode == rcvDead && !(useScope && s.tracked)
		if must || rr.Intn(3) == 0 {
			unsubs = append(unsubs, unsubPlan{s, uint64(rr.Intn(60)), rr.Intn(5) == 0})
			plan.Unsubs = append(plan.Unsubs, s.id)
		}
	}
	nLate := rr.Intn(3)
	plan.Late = nLate
	type latePlan struct {
		cp, mode  int
		at        uint64
		thenUnsub bool
	}
	var lates []latePlan
	for i := 0; i < nLate; i++ {
		lates = append(lates, latePlan{capChoices[rr.Intn(len(capChoices))], []int{rcvFast, rcvSlow, rcvLazy}[rr.Intn(3)], uint64(rr.Intn(60)), rr.Intn(3) == 0})
	}
	closeAt := uint64(rr.Intn(80))
	lazyAt := uint64(10 + rr.Intn(80))

	// ---- run
	var wg sync.WaitGroup
	launch := func(f func()) {
		wg.Add(1)
		go func() {
			defer wg.Done()
			f()
		}()
	}
	if concurrentInitial {
		for _, s := range initial {
			s := s
			launch(func() { doSubscribe(s) })
		}
	}
	for _, sd := range senders {
		sd := sd
		launch(func() {
			for _, v := range sd.vals {
				sc.yield(11)
				lg.add("cb" + strconv.Itoa(v))
				n := feed.Send(v)
				lg.add("ce" + strconv.Itoa(v) + ":" + strconv.Itoa(n))
			}
		})
	}
	for _, u := range unsubs {
		u := u
		launch(func() {
			sc.waitTicks(u.at, 2*time.Millisecond)
			if concurrentInitial {
				// the Subscription object only exists once Subscribe has returned
				for {
					subsMu.Lock()
					ready := u.s.sub != nil
					subsMu.Unlock()
					if ready {
						break
					}
					runtime.Gosched()
				}
			}
			if u.double {
				var w2 sync.WaitGroup
				w2.Add(1)
				go func() { defer w2.Done(); doUnsub(u.s) }()
				doUnsub(u.s)
				w2.Wait()
			} else {
				doUnsub(u.s)
			}
		})
	}
	for _, lp := range lates {
		lp := lp
		launch(func() {
			sc.waitTicks(lp.at, 2*time.Millisecond)
			s := newSub(lp.cp, lp.mode, false)
			doSubscribe(s)
			if lp.thenUnsub {
				sc.waitTicks(lp.at+uint64(sc.rand(30)), time.Millisecond)
				doUnsub(s)
			}
		})
	}
	if useScope {
		launch(func() {
			sc.waitTicks(closeAt, 2*time.Millisecond)
			var tracked []*subSt
			if concurrentInitial {
				// wait until every initial subscription exists so that the tracked set is known
				for _, s := range initial {
					for {
						subsMu.Lock()
						ready := s.sub != nil
						subsMu.Unlock()
						if ready {
							break
						}
						runtime.Gosched()
					}
				}
			}
			subsMu.Lock()
			for _, s := range initial {
				if s.tracked {
					tracked = append(tracked, s)
				}
			}
			subsMu.Unlock()
			sc.yield(13)
			for _, s := range tracked {
				lg.add("ub" + strconv.Itoa(s.id))
			}
			scope.Close()
			for _, s := range tracked {
				lg.add("ue" + strconv.Itoa(s.id))
				s.releaseRecv()
			}
		})
	}
	// lazy receivers start on their own after a while
	launch(func() {
		sc.waitTicks(lazyAt, 2*time.Millisecond)
		subsMu.Lock()
		cp := append([]*subSt{}, subs...)
		subsMu.Unlock()
		for _, s := range cp {
			if s.mode == rcvLazy {
				s.releaseRecv()
			}
		}
	})

	res := roundResult{plan: plan, stateOK: true}
	done := make(chan struct{})
	go func() { wg.Wait(); close(done) }()
	// late lazy subscribers are released once everything else is under way
	relTimer := time.AfterFunc(3*time.Millisecond, func() {
		subsMu.Lock()
		cp := append([]*subSt{}, subs...)
		subsMu.Unlock()
		for _, s := range cp {
			if s.mode == rcvLazy {
				s.releaseRecv()
			}
		}
	})
	// late subscribers created after the timer fired must not stay asleep: poll while waiting
	deadline := time.After(hangTimeout)
	tick := time.NewTicker(5 * time.Millisecond)
	defer tick.Stop()
wait:
	for {
		select {
		case <-done:
			break wait
		case <-tick.C:
			subsMu.Lock()
			for _, s := range subs {
				if s.mode == rcvLazy {
					s.releaseRecv()
				}
			}
			subsMu.Unlock()
		case <-deadline:
			res.hang = true
			break wait
		}
	}
	relTimer.Stop()
	if res.hang {
		lg.add("hang")
		res.trace = lg.snapshot()
		return res // goroutines of this round are leaked; the feed is abandoned
	}

	// ---- quiescent: one probe Send that every live subscription must get and no unsubscribed one may get
	subsMu.Lock()
	all := append([]*subSt{}, subs...)
	subsMu.Unlock()
	for _, s := range all {
		s.releaseRecv() // every receiver runs now (dead receivers of unsubscribed subscriptions just drain)
	}
	probeDone := make(chan struct{})
	go func() {
		lg.add("cb99")
		n := feed.Send(99)
		lg.add("ce99:" + strconv.Itoa(n))
		close(probeDone)
	}()
	select {
	case <-probeDone:
	case <-time.After(hangTimeout):
		res.hang = true
		lg.add("hang")
		res.trace = lg.snapshot()
		return res
	}
	for _, s := range all {
		close(s.stop)
	}
	recvWG.Wait()
	res.trace = lg.snapshot()

	// ---- internal state at quiescence
	unsubbed := map[int]bool{}
	for _, e := range res.trace {
		if strings.HasPrefix(e, "ub") {
			id, _ := strconv.Atoi(e[2:])
			unsubbed[id] = true
		}
	}
	var live, scIDs, ibIDs []int
	for _, s := range all {
		if !unsubbed[s.id] {
			live = append(live, s.id)
		}
	}
	scs, ibs := event.VerifFeedChans(&feed)
	for _, c := range scs {
		scIDs = append(scIDs, chanID[c])
	}
	for _, c := range ibs {
		ibIDs = append(ibIDs, chanID[c])
	}
	sort.Ints(live)
	sort.Ints(scIDs)
	sort.Ints(ibIDs)
	res.stateIn = "st live=" + joinInts(live) + " sc=" + joinInts(scIDs) + " ib=" + joinInts(ibIDs)
	res.stateOK = judgeState(live, scIDs, ibIDs) && event.VerifFeedTokenFree(&feed)

	// ---- documented API behaviour around the scope (observations, reported under their own kind)
	if useScope {
		if scope.Count() != 0 {
			res.misc = append(res.misc, fmt.Sprintf("scope.Count()=%d after Close", scope.Count()))
		}
		var f2 event.Feed
		if w := scope.Track(f2.Subscribe(make(chan int, 1))); w != nil {
			res.misc = append(res.misc, "Track after Close returned a non-nil subscription")
		}
	}
	for _, s := range all {
		if unsubbed[s.id] {
			select {
			case <-s.sub.Err():
			default:
				res.misc = append(res.misc, fmt.Sprintf("Err() of subscription %d not closed after Unsubscribe returned", s.id))
			}
		}
		if len(s.ch) != 0 {
			res.misc = append(res.misc, fmt.Sprintf("channel %d not drained", s.id))
		}
	}
	return res
}

var hangTimeout = 12 * time.Second

func joinInts(xs []int) string {
	var sb strings.Builder
	for i, x := range xs {
		if i > 0 {
			sb.WriteByte(',')
		}
		sb.WriteString(strconv.Itoa(x))
	}
	return sb.String()
}

// ---------------------------------------------------------------------------------------------------------------------
// the Spec, judged directly (mirror of Aqv.FeedSpec.judge)

type gev struct {
	tag  string
	a, b int
}

func parseTrace(tr []string) []gev {
	out := make([]gev, 0, len(tr))
	for _, t := range tr {
		if t == "hang" {
			out = append(out, gev{tag: "hang"})
			continue
		}
		tag, rest := t[:2], t[2:]
		var a, b int
		if i := strings.IndexByte(rest, ':'); i >= 0 {
			a, _ = strconv.Atoi(rest[:i])
			b, _ = strconv.Atoi(rest[i+1:])
		} else {
			a, _ = strconv.Atoi(rest)
		}
		out = append(out, gev{tag, a, b})
	}
	return out
}

func firstIdx(tr []gev, tag string, a int) int {
	for i, e := range tr {
		if e.tag == tag && e.a == a {
			return i
		}
	}
	return -1
}

// judge returns "" if the history satisfies the property, else the first violated clause (fixed order) and a detail.
func judge(tr []gev) (string, string) {
	subSet, sendSet := map[int]bool{}, map[int]bool{}
	var subs, sends []int
	for _, e := range tr {
		switch e.tag {
		case "hang":
			return "deadlock", "a Send/Unsubscribe/Close did not return"
		case "sb", "se", "ub", "ue", "em":
			if !subSet[e.a] {
				subSet[e.a] = true
				subs = append(subs, e.a)
			}
		case "rv":
			if !subSet[e.a] {
				subSet[e.a] = true
				subs = append(subs, e.a)
			}
			if !sendSet[e.b] {
				sendSet[e.b] = true
				sends = append(sends, e.b)
			}
		case "cb", "ce":
			if !sendSet[e.a] {
				sendSet[e.a] = true
				sends = append(sends, e.a)
			}
		}
	}
	recvd := map[int][]int{}
	count := map[[2]int]int{}
	for _, e := range tr {
		if e.tag == "rv" {
			recvd[e.a] = append(recvd[e.a], e.b)
			count[[2]int{e.a, e.b}]++
		}
	}
	// duplicate
	for _, c := range subs {
		for _, g := range recvd[c] {
			if count[[2]int{c, g}] > 1 {
				return "duplicate", fmt.Sprintf("subscriber %d received value %d %d times", c, g, count[[2]int{c, g}])
			}
		}
	}
	type comp struct{ g, b, e, n int }
	var completed []comp
	for _, g := range sends {
		b, e := firstIdx(tr, "cb", g), firstIdx(tr, "ce", g)
		if b >= 0 && e >= 0 {
			completed = append(completed, comp{g, b, e, tr[e].b})
		}
	}
	// lost
	for _, s := range completed {
		for _, c := range subs {
			p := firstIdx(tr, "se", c)
			if p < 0 || p >= s.b {
				continue
			}
			if u := firstIdx(tr, "ub", c); u >= 0 && u < s.e {
				continue
			}
			if count[[2]int{c, s.g}] != 1 {
				return "lost", fmt.Sprintf("subscriber %d (subscribed before Send(%d) began, not unsubscribed by its end) received it %d times", c, s.g, count[[2]int{c, s.g}])
			}
		}
	}
	// nsent
	for _, s := range completed {
		tot := 0
		for _, c := range subs {
			tot += count[[2]int{c, s.g}]
		}
		if tot != s.n {
			return "nsent", fmt.Sprintf("Send(%d) returned %d but %d deliveries were made", s.g, s.n, tot)
		}
	}
	// order
	for _, c1 := range subs {
		for _, c2 := range subs {
			in1, in2 := map[int]bool{}, map[int]bool{}
			for _, g := range recvd[c1] {
				in1[g] = true
			}
			for _, g := range recvd[c2] {
				in2[g] = true
			}
			var f1, f2 []int
			for _, g := range recvd[c1] {
				if in2[g] {
					f1 = append(f1, g)
				}
			}
			for _, g := range recvd[c2] {
				if in1[g] {
					f2 = append(f2, g)
				}
			}
			if len(f1) != len(f2) {
				return "order", fmt.Sprintf("subscribers %d and %d disagree: %v vs %v", c1, c2, f1, f2)
			}
			for i := range f1 {
				if f1[i] != f2[i] {
					return "order", fmt.Sprintf("subscribers %d and %d saw common values in different orders: %v vs %v", c1, c2, f1, f2)
				}
			}
		}
	}
	// late
	for _, c := range subs {
		u := firstIdx(tr, "ue", c)
		if u < 0 {
			continue
		}
		for _, g := range recvd[c] {
			if b := firstIdx(tr, "cb", g); b >= 0 && u < b {
				return "late", fmt.Sprintf("subscriber %d received value %d of a Send that began after its Unsubscribe returned", c, g)
			}
		}
		p := -1
		for i := u + 1; i < len(tr); i++ {
			if tr[i].tag == "em" && tr[i].a == c {
				p = i
				break
			}
		}
		if p >= 0 {
			for i := p + 1; i < len(tr); i++ {
				if tr[i].tag == "rv" && tr[i].a == c {
					return "late", fmt.Sprintf("subscriber %d: channel seen empty after Unsubscribe returned, then value %d arrived", c, tr[i].b)
				}
			}
		}
	}
	return "", ""
}

func judgeState(live, sc, ib []int) bool {
	all := append(append([]int{}, sc...), ib...)
	seen := map[int]bool{}
	for _, c := range all {
		if seen[c] {
			return false
		}
		seen[c] = true
	}
	lv := map[int]bool{}
	for _, c := range live {
		lv[c] = true
		if !seen[c] {
			return false
		}
	}
	for _, c := range all {
		if !lv[c] {
			return false
		}
	}
	return true
}

// ---------------------------------------------------------------------------------------------------------------------
// malformed stream: documented misuse of the API (wrong argument kinds / element types).  Outside the property's
// quantifier (it ranges over interleavings of well-typed calls), so outcomes are recorded, never judged.

func misuse(run *hx.Run) {
	probe := func(name string, f func() string) {
		out := hx.Guard(3*time.Second, f)
		if strings.HasPrefix(out, "panic") {
			out = "panic"
		}
		run.Count("misuse:" + name + ":" + out)
	}
	probe("subscribe-non-channel", func() string { var f event.Feed; f.Subscribe(42); return "accepted" })
	probe("subscribe-recv-only-channel", func() string {
		var f event.Feed
		f.Subscribe((<-chan int)(make(chan int)))
		return "accepted"
	})
	probe("subscribe-other-elem-type", func() string {
		var f event.Feed
		f.Subscribe(make(chan int, 1))
		f.Subscribe(make(chan string, 1))
		return "accepted"
	})
	probe("send-other-type", func() string {
		var f event.Feed
		f.Subscribe(make(chan int, 1))
		f.Send("x")
		return "accepted"
	})
	// after a recovered type-mismatch panic of Send, is the feed still usable?  (candidate defect: f.mu stays locked)
	var f event.Feed
	f.Subscribe(make(chan int, 4))
	hx.Safe(func() string { f.Send("x"); return "" })
	after := hx.Guard(2*time.Second, func() string { f.Subscribe(make(chan int, 4)); f.Send(1); return "usable" })
	run.Count("misuse:feed-after-recovered-send-type-panic:" + after)
	run.Notes["send_type_mismatch_panic_wedges_feed"] = after == "hang"
}

func main() {
	run := hx.Start()
	run.Watch(90*time.Second, 3<<30, func(cur string) string { return "stall" })
	hook := event.VerifSetYield(hookYield)
	run.Notes["yield_hook_present"] = hook
	if *raceChild {
		runRaceChild(run, hook)
		run.Finish()
		return
	}

	rounds, budget := 6000, 45*time.Second
	if run.Thorough() {
		rounds, budget = 400000, 14*time.Minute
	}
	only, onlyMux := -1, -1
	if run.Replay != "" {
		if b, err := os.ReadFile(run.Replay); err == nil {
			var rp struct {
				Input struct {
					Plan    roundPlan `json:"plan"`
					MuxPlan muxPlan   `json:"mux_plan"`
				} `json:"input"`
			}
			if json.Unmarshal(b, &rp) == nil && rp.Input.Plan.Round > 0 {
				only = rp.Input.Plan.Round
				run.Notes["replay_round"] = only
			}
			if rp.Input.MuxPlan.Round > 0 {
				onlyMux = rp.Input.MuxPlan.Round
				only = 0 // no Feed round has number 0: skip them all
				run.Notes["replay_mux_round"] = onlyMux
			}
		}
	}
	procsCycle := []int{runtime.NumCPU(), 1, 2, 4}
	start := time.Now()
	hangs := 0
	executed := 0
	for round := 1; round <= rounds; round++ {
		reps := 1
		if only >= 0 {
			if round != only {
				continue
			}
			reps = 300 // same plan, many schedules
		}
		for rep := 0; rep < reps; rep++ {
			if round%50 == 1 || only >= 0 {
				p := procsCycle[(round/50)%len(procsCycle)]
				if p > runtime.NumCPU() {
					p = runtime.NumCPU()
				}
				if p != runtime.GOMAXPROCS(0) {
					runtime.GOMAXPROCS(p)
				}
			}
			run.Current(fmt.Sprintf("round %d", round))
			// the plan of a round depends only on (seed, round), so a replay regenerates it exactly
			res := runRound(run, run.Seed, round, hx.NewRng(run.Seed*1000003+uint64(round)), hook)
			executed++
			line := "tr " + strings.Join(res.trace, " ")
			kind, detail := judge(parseTrace(res.trace))
			verdict := "ok"
			if kind != "" {
				verdict = "reject " + kind
				run.Violate(kind, kind, map[string]interface{}{"plan": res.plan, "trace": line}, detail)
			}
			run.Case(line, verdict)
			run.Count("mode:" + res.plan.Mode)
			run.Count(fmt.Sprintf("procs:%d", res.plan.Procs))
			if res.plan.Scope {
				run.Count("scope-close")
			}
			if res.hang {
				hangs++
			} else {
				sv := "ok"
				if !res.stateOK {
					sv = "reject state"
					run.Violate("state", "state", map[string]interface{}{"plan": res.plan, "state": res.stateIn, "trace": line},
						"at quiescence f.sendCases[1:] ++ f.inbox is not exactly the set of live subscriptions (or the sendLock token is missing)")
				}
				run.Case(res.stateIn, sv)
				for _, m := range res.misc {
					run.Violate("api", "api:"+strings.Fields(m)[0], map[string]interface{}{"plan": res.plan, "trace": line}, m)
				}
			}
			if hangs >= 2 {
				break
			}
		}
		if hangs >= 2 || time.Since(start) > budget {
			break
		}
	}
	curSched.Store(nil)
	// TypeMux section
	if only < 0 || onlyMux >= 0 {
		mr, mb := 2500, 15*time.Second
		if run.Thorough() {
			mr, mb = 150000, 4*time.Minute
		}
		muxRounds(run, mr, mb, onlyMux)
	}
	misuse(run)
	if only < 0 {
		poolUserSection(run)
		scopeCloseSection(run)
		raceSubRun(run)
	}
	run.Notes["rounds"] = executed
	run.Notes["hangs"] = hangs
	for p := 1; p < len(yieldCounts); p++ {
		if n := atomic.LoadUint64(&yieldCounts[p]); n > 0 {
			run.Hist[fmt.Sprintf("yield:p%d", p)] = int(n)
		}
	}
	if hook {
		y3, y4, y5 := atomic.LoadUint64(&yieldCounts[3]), atomic.LoadUint64(&yieldCounts[4]), atomic.LoadUint64(&yieldCounts[5])
		run.Notes["send_reached_select"] = y3
		run.Notes["remove_after_inbox_miss"] = y4
		run.Notes["remove_token_path"] = y5
		run.Notes["remove_rendezvous_with_running_send"] = int64(y4) - int64(y5)
	}
	run.Finish()
}

package main

// Rounds on the real event.TypeMux (aqua/event/event.go — the package's second entry point): concurrent Post / Subscribe /
// Unsubscribe / Stop, several event types per subscription, fast / slow / "dead" readers (a dead reader does not read until
// its Unsubscribe has returned or the mux is stopped, so a Post parks on it — which is when unsubscribing the first, a
// middle or the last receiver of the list matters).  The history is logged on the same kind of global clock as the Feed
// rounds and judged by the Spec only (Aqv.FeedSpec.judgeMux / judgeMux below): duplicate, lost, late, api, deadlock.

import (
	"fmt"
	"runtime"
	"strconv"
	"strings"
	"sync"
	"time"

	"gitlab.com/aquachain/aquachain/aqua/event"
	"verifharness/hx"
)

type muxSub struct {
	id      int
	mask    int
	sub     *event.TypeMuxSubscription
	mode    int
	release chan struct{}
	relOnce sync.Once
}

func (s *muxSub) releaseRecv() { s.relOnce.Do(func() { close(s.release) }) }

type muxPlan struct {
	Seed   uint64 `json:"seed"`
	Round  int    `json:"round"`
	Mode   string `json:"mode"`
	Procs  int    `json:"procs"`
	Masks  []int  `json:"sub_type_masks"`
	Modes  []int  `json:"reader_modes"`
	Posts  []int  `json:"posts_per_poster"`
	Unsubs []int  `json:"unsub_subs"`
	Late   int    `json:"late_subscribers"`
	Stop   bool   `json:"stop_during_round"`
}

type muxResult struct {
	trace []string
	hang  bool
	plan  muxPlan
}

func muxTypes(mask int) []interface{} {
	var ts []interface{}
	if mask&1 != 0 {
		ts = append(ts, int(0))
	}
	if mask&2 != 0 {
		ts = append(ts, "")
	}
	if mask&4 != 0 {
		ts = append(ts, float64(0))
	}
	return ts
}

func muxValue(p, bit int) interface{} {
	switch bit {
	case 1:
		return p
	case 2:
		return strconv.Itoa(p)
	default:
		return float64(p)
	}
}

func muxEventID(d interface{}) int {
	switch v := d.(type) {
	case int:
		return v
	case string:
		n, _ := strconv.Atoi(v)
		return n
	case float64:
		return int(v)
	}
	return -1
}

var maskChoices = []int{1, 1, 1, 2, 3, 3, 5, 7}

func runMuxRound(seed uint64, round int, rr *hx.Rng) muxResult {
	lg := &tlog{}
	sc := &sched{mode: rr.Intn(nModes), p: 150 + rr.Intn(600), rng: rr.Fork(7), prio: map[uint64]int{}}
	for i := range sc.changeAt {
		sc.changeAt[i] = uint64(5 + rr.Intn(80))
	}
	curSched.Store(sc)
	var mux event.TypeMux
	plan := muxPlan{Seed: seed, Round: round, Mode: modeNames[sc.mode], Procs: runtime.GOMAXPROCS(0)}

	var mu sync.Mutex
	var subs []*muxSub
	nextID := 0
	var readers sync.WaitGroup

	startReader := func(s *muxSub) {
		readers.Add(1)
		go func() {
			defer readers.Done()
			if s.mode == rcvDead || s.mode == rcvLazy {
				<-s.release
			}
			ch := s.sub.Chan()
			for {
				idx := lg.reserve() // position taken BEFORE the receive begins
				ev, ok := <-ch
				if !ok {
					return
				}
				lg.fill(idx, "Rv"+strconv.Itoa(s.id)+":"+strconv.Itoa(muxEventID(ev.Data)))
				if s.mode == rcvSlow {
					sc.yield(14)
					if sc.rand(3) == 0 {
						time.Sleep(time.Duration(10+sc.rand(50)) * time.Microsecond)
					}
				} else {
					sc.yield(15)
				}
			}
		}()
	}
	subscribe := func(mask, mode int) *muxSub {
		mu.Lock()
		nextID++
		s := &muxSub{id: nextID, mask: mask, mode: mode, release: make(chan struct{})}
		subs = append(subs, s)
		mu.Unlock()
		sc.yield(10)
		lg.add("Sb" + strconv.Itoa(s.id))
		sub := mux.Subscribe(muxTypes(mask)...)
		mu.Lock()
		s.sub = sub
		mu.Unlock()
		lg.add("Se" + strconv.Itoa(s.id) + ":" + strconv.Itoa(mask))
		startReader(s)
		return s
	}
	unsubscribe := func(s *muxSub) {
		sc.yield(12)
		lg.add("Ub" + strconv.Itoa(s.id))
		s.sub.Unsubscribe()
		lg.add("Ue" + strconv.Itoa(s.id))
		s.releaseRecv()
	}

	// ---- plan
	nInit := 2 + rr.Intn(4)
	var initial []*muxSub
	for i := 0; i < nInit; i++ {
		mask := maskChoices[rr.Intn(len(maskChoices))]
		mode := []int{rcvFast, rcvFast, rcvSlow, rcvLazy, rcvDead}[rr.Intn(5)]
		if i == 0 && rr.Intn(2) == 0 {
			mode = rcvDead // a Post will park on the first receiver of its list
		}
		plan.Masks = append(plan.Masks, mask)
		plan.Modes = append(plan.Modes, mode)
		initial = append(initial, subscribe(mask, mode))
	}
	type unsubPlan struct {
		s  *muxSub
		at uint64
	}
	var unsubs []unsubPlan
	for _, s := range initial {
		if s.mode == rcvDead || rr.Intn(3) == 0 {
			unsubs = append(unsubs, unsubPlan{s, uint64(rr.Intn(50))})
			plan.Unsubs = append(plan.Unsubs, s.id)
		}
	}
	nPosters := 1 + rr.Intn(3)
	nextP := 100
	type poster struct{ ps, bits []int }
	var posters []poster
	for i := 0; i < nPosters; i++ {
		k := 1 + rr.Intn(4)
		var po poster
		for j := 0; j < k; j++ {
			po.ps = append(po.ps, nextP)
			po.bits = append(po.bits, []int{1, 1, 2, 4}[rr.Intn(4)])
			nextP++
		}
		posters = append(posters, po)
		plan.Posts = append(plan.Posts, k)
	}
	nLate := rr.Intn(3)
	plan.Late = nLate
	type latePlan struct {
		mask, mode int
		at         uint64
		thenUnsub  bool
	}
	var lates []latePlan
	for i := 0; i < nLate; i++ {
		lates = append(lates, latePlan{maskChoices[rr.Intn(len(maskChoices))], []int{rcvFast, rcvSlow, rcvLazy}[rr.Intn(3)], uint64(rr.Intn(50)), rr.Intn(3) == 0})
	}
	stopDuring := rr.Intn(4) == 0
	plan.Stop = stopDuring
	stopAt := uint64(rr.Intn(70))
	lazyAt := uint64(10 + rr.Intn(60))

	// ---- run
	var wg sync.WaitGroup
	launch := func(f func()) {
		wg.Add(1)
		go func() { defer wg.Done(); f() }()
	}
	for _, po := range posters {
		po := po
		launch(func() {
			for i, p := range po.ps {
				sc.yield(11)
				lg.add("Pb" + strconv.Itoa(p) + ":" + strconv.Itoa(po.bits[i]))
				err := mux.Post(muxValue(p, po.bits[i]))
				ok := 1
				if err != nil {
					ok = 0
				}
				lg.add("Pe" + strconv.Itoa(p) + ":" + strconv.Itoa(ok))
			}
		})
	}
	for _, u := range unsubs {
		u := u
		launch(func() {
			sc.waitTicks(u.at, 2*time.Millisecond)
			unsubscribe(u.s)
		})
	}
	for _, lp := range lates {
		lp := lp
		launch(func() {
			sc.waitTicks(lp.at, 2*time.Millisecond)
			s := subscribe(lp.mask, lp.mode)
			if lp.thenUnsub {
				sc.waitTicks(lp.at+uint64(sc.rand(30)), time.Millisecond)
				unsubscribe(s)
			}
		})
	}
	stopped := make(chan struct{})
	doStop := func() {
		lg.add("Tb")
		mux.Stop()
		lg.add("Te")
		close(stopped)
		mu.Lock()
		cp := append([]*muxSub{}, subs...)
		mu.Unlock()
		for _, s := range cp {
			s.releaseRecv()
		}
	}
	if stopDuring {
		launch(func() {
			sc.waitTicks(stopAt, 2*time.Millisecond)
			sc.yield(13)
			doStop()
		})
	}
	releaseLazy := func() {
		mu.Lock()
		cp := append([]*muxSub{}, subs...)
		mu.Unlock()
		for _, s := range cp {
			if s.mode == rcvLazy {
				s.releaseRecv()
			}
		}
	}
	launch(func() {
		sc.waitTicks(lazyAt, 2*time.Millisecond)
		releaseLazy()
	})

	res := muxResult{plan: plan}
	done := make(chan struct{})
	go func() { wg.Wait(); close(done) }()
	deadline := time.After(hangTimeout)
	tick := time.NewTicker(5 * time.Millisecond)
	defer tick.Stop()
wait:
	for {
		select {
		case <-done:
			break wait
		case <-tick.C:
			releaseLazy()
		case <-deadline:
			res.hang = true
			break wait
		}
	}
	if res.hang {
		lg.add("hang")
		res.trace = lg.snapshot()
		return res
	}
	// ---- quiescent: everybody reads now; one probe Post per type, then Stop closes every channel
	mu.Lock()
	all := append([]*muxSub{}, subs...)
	mu.Unlock()
	for _, s := range all {
		s.releaseRecv()
	}
	fin := make(chan struct{})
	go func() {
		for i, bit := range []int{1, 2, 4} {
			p := 90 + i
			lg.add("Pb" + strconv.Itoa(p) + ":" + strconv.Itoa(bit))
			err := mux.Post(muxValue(p, bit))
			ok := 1
			if err != nil {
				ok = 0
			}
			lg.add("Pe" + strconv.Itoa(p) + ":" + strconv.Itoa(ok))
		}
		select {
		case <-stopped:
		default:
			doStop()
		}
		readers.Wait()
		close(fin)
	}()
	select {
	case <-fin:
	case <-time.After(hangTimeout):
		res.hang = true
		lg.add("hang")
	}
	res.trace = lg.snapshot()
	return res
}

// ---------------------------------------------------------------------------------------------------------------------
// Spec for TypeMux histories, judged directly (mirror of Aqv.FeedSpec.judgeMux)

func judgeMux(tr []gev) (string, string) {
	first := func(tag string, a int) int {
		for i, e := range tr {
			if e.tag == tag && (a < 0 || e.a == a) {
				return i
			}
		}
		return -1
	}
	subSet := map[int]bool{}
	var subs []int
	for _, e := range tr {
		switch e.tag {
		case "hang":
			return "deadlock", "a Post/Unsubscribe/Stop did not return, or a reader never saw its channel closed"
		case "Sb", "Se", "Ub", "Ue", "Rv":
			if !subSet[e.a] {
				subSet[e.a] = true
				subs = append(subs, e.a)
			}
		}
	}
	count := map[[2]int]int{}
	for _, e := range tr {
		if e.tag == "Rv" {
			count[[2]int{e.a, e.b}]++
		}
	}
	for _, c := range subs {
		for _, e := range tr {
			if e.tag == "Rv" && e.a == c && count[[2]int{c, e.b}] > 1 {
				return "duplicate", fmt.Sprintf("receiver %d received event %d %d times", c, e.b, count[[2]int{c, e.b}])
			}
		}
	}
	type okPost struct{ p, t, b, e int }
	var posts []okPost
	for i, e := range tr {
		if e.tag == "Pb" {
			for j, f := range tr {
				if f.tag == "Pe" && f.a == e.a {
					if f.b == 1 {
						posts = append(posts, okPost{e.a, e.b, i, j})
					}
					break
				}
			}
		}
	}
	tb, te := first("Tb", -1), first("Te", -1)
	for _, po := range posts {
		if tb >= 0 && tb < po.e {
			continue
		}
		for _, c := range subs {
			q := first("Se", c)
			if q < 0 || q >= po.b || (tr[q].b/po.t)%2 != 1 {
				continue
			}
			if u := first("Ub", c); u >= 0 && u < po.e {
				continue
			}
			if n := count[[2]int{c, po.p}]; n != 1 {
				return "lost", fmt.Sprintf("receiver %d (subscribed to the type before Post(%d) began, not unsubscribed, mux not stopped by its end) received it %d times", c, po.p, n)
			}
		}
	}
	for _, c := range subs {
		ue := first("Ue", c)
		hasUb := first("Ub", c) >= 0
		for i, e := range tr {
			if e.tag != "Rv" || e.a != c {
				continue
			}
			if ue >= 0 && ue < i {
				return "late", fmt.Sprintf("receiver %d received event %d in a receive that began after its Unsubscribe returned", c, e.b)
			}
			if pb := first("Pb", e.b); ue >= 0 && pb >= 0 && ue < pb {
				return "late", fmt.Sprintf("receiver %d received event %d of a Post that began after its Unsubscribe returned", c, e.b)
			}
			if te >= 0 && !hasUb && te < i {
				return "late", fmt.Sprintf("receiver %d received event %d in a receive that began after Stop returned", c, e.b)
			}
		}
	}
	if te >= 0 {
		for _, po := range posts {
			if te < po.b {
				return "api", fmt.Sprintf("Post(%d) began after Stop returned and returned nil", po.p)
			}
		}
	}
	return "", ""
}

func parseMuxTrace(tr []string) []gev {
	out := make([]gev, 0, len(tr))
	for _, t := range tr {
		switch t {
		case "hang", "Tb", "Te":
			out = append(out, gev{tag: t})
			continue
		}
		tag, rest := t[:2], t[2:]
		var a, b int
		if i := strings.IndexByte(rest, ':'); i >= 0 {
			a, _ = strconv.Atoi(rest[:i])
			b, _ = strconv.Atoi(rest[i+1:])
		} else {
			a, _ = strconv.Atoi(rest)
		}
		out = append(out, gev{tag, a, b})
	}
	return out
}

// muxRounds runs the TypeMux section of a tier.
func muxRounds(run *hx.Run, rounds int, budget time.Duration, only int) {
	start := time.Now()
	hangs, executed := 0, 0
	for round := 1; round <= rounds; round++ {
		reps := 1
		if only >= 0 {
			if round != only {
				continue
			}
			reps = 300
		}
		for rep := 0; rep < reps; rep++ {
			run.Current(fmt.Sprintf("mux round %d", round))
			res := runMuxRound(run.Seed, round, hx.NewRng(run.Seed*7000003+uint64(round)))
			executed++
			line := "mx " + strings.Join(res.trace, " ")
			kind, detail := judgeMux(parseMuxTrace(res.trace))
			verdict := "ok"
			if kind != "" {
				verdict = "reject " + kind
				run.Violate("mux-"+kind, "mux-"+kind, map[string]interface{}{"mux_plan": res.plan, "trace": line}, "TypeMux: "+detail)
			}
			run.Case(line, verdict)
			run.Count("mux:mode:" + res.plan.Mode)
			if res.plan.Stop {
				run.Count("mux:stop-during-round")
			}
			if res.hang {
				hangs++
			}
			if hangs >= 2 {
				break
			}
		}
		if hangs >= 2 || time.Since(start) > budget {
			break
		}
	}
	curSched.Store(nil)
	run.Notes["mux_rounds"] = executed
	run.Notes["mux_hangs"] = hangs
}

// muxUse is the TypeMux part of the race-detector sub-run: a fresh mux with Subscribe || Post || Unsubscribe || Stop.
func muxUse(rng *hx.Rng) {
	var mux event.TypeMux
	gate := make(chan struct{})
	var wg, readers sync.WaitGroup
	drain := func(s *event.TypeMuxSubscription) {
		readers.Add(1)
		go func() {
			defer readers.Done()
			for range s.Chan() {
			}
		}()
	}
	pre := mux.Subscribe(int(0), "")
	drain(pre)
	pre2 := mux.Subscribe(int(0))
	drain(pre2)
	acts := []func(){
		func() { mux.Post(1) },
		func() { drain(mux.Subscribe(int(0))) },
		func() { pre.Unsubscribe() },
		func() { mux.Post("x") },
		func() { pre2.Unsubscribe() },
		func() { mux.Stop() },
		func() { mux.Post(2) },
	}
	n := 2 + rng.Intn(5)
	off := rng.Intn(len(acts))
	for i := 0; i < n; i++ {
		a := acts[(off+i)%len(acts)]
		wg.Add(1)
		go func() {
			defer wg.Done()
			<-gate
			a()
		}()
	}
	close(gate)
	wg.Wait()
	mux.Stop()
	readers.Wait()
}

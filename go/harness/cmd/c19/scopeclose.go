package main

// Overlapping SubscriptionScope.Close calls (aqua/event/subscription.go).
//
// Clause: once ANY Close() call has returned, every tracked subscription is unsubscribed — a following Feed.Send reaches no
// tracked subscription and each tracked subscription's Err() channel is closed.  The schedule is fixed by gates, not sleeps:
// one tracked member is an event.NewSubscription whose producer, once told to quit, signals `inUnsub` and then waits for
// `release`, so Close#1 is provably inside that member's Unsubscribe when Close#2 (and #3) are called.  In the code as
// written Close#2 waits on sc.mu until Close#1 has finished; the harness opens the gate after a grace period if Close#2 has
// not returned.  "Close#2 returned while the gate was still shut" is the only timing-dependent observation and it can only
// be made when it really happened; what is judged then is the state (Send deliveries, Err channels), never a duration.

import (
	"fmt"
	"sync"
	"time"

	"gitlab.com/aquachain/aquachain/aqua/event"
	"verifharness/hx"
)

const scopeCloseGrace = 150 * time.Millisecond

type scopeClosePlan struct {
	Seed      uint64 `json:"seed"`
	Round     int    `json:"round"`
	FeedSubs  int    `json:"tracked_feed_subs"`
	Closers   int    `json:"overlapping_close_calls"`
	ViaWrap   bool   `json:"gated_member_tracked_first"`
	Untracked bool   `json:"untracked_subscriber"`
}

// scopeCloseRound returns (kind, detail) of a violation, or "".
func scopeCloseRound(run *hx.Run, round int, rr *hx.Rng) (scopeClosePlan, string, string) {
	plan := scopeClosePlan{Seed: run.Seed, Round: round, FeedSubs: 1 + rr.Intn(4), Closers: 2 + rr.Intn(2), ViaWrap: rr.Bool(), Untracked: rr.Bool()}
	var feed event.Feed
	var sc event.SubscriptionScope
	inUnsub := make(chan struct{}, 1)
	release := make(chan struct{})
	var relOnce sync.Once
	open := func() { relOnce.Do(func() { close(release) }) }
	defer open()

	gatedInner := event.NewSubscription(func(quit <-chan struct{}) error {
		<-quit                // Unsubscribe has been called …
		inUnsub <- struct{}{} // … and is now waiting for this producer
		<-release
		return nil
	})
	type member struct {
		name  string
		inner event.Subscription
		ch    chan int
	}
	var members []member
	addFeedSubs := func() {
		for i := 0; i < plan.FeedSubs; i++ {
			ch := make(chan int, 8)
			inner := feed.Subscribe(ch)
			sc.Track(inner)
			members = append(members, member{fmt.Sprintf("feed-sub-%d", i), inner, ch})
		}
	}
	if plan.ViaWrap {
		sc.Track(gatedInner)
		addFeedSubs()
	} else {
		addFeedSubs()
		sc.Track(gatedInner)
	}
	members = append(members, member{"gated-producer", gatedInner, nil})
	var free chan int
	if plan.Untracked {
		free = make(chan int, 8)
		feed.Subscribe(free)
	}

	closed := func(s event.Subscription) bool {
		select {
		case _, ok := <-s.Err():
			_ = ok
			return true // a value or a close: the subscription has ended
		default:
			return false
		}
	}
	// state check: what the clause demands once a Close has returned
	check := func(when string, v int) (string, string) {
		for _, m := range members {
			if !closed(m.inner) {
				return "scope-close-early", fmt.Sprintf("%s: Err() of tracked subscription %s is not closed (it is still subscribed)", when, m.name)
			}
		}
		want := 0
		if free != nil {
			want = 1
		}
		var n int
		if !within(poolUserTimeout, func() { n = feed.Send(v) }) {
			return "deadlock", when + ": Feed.Send did not return"
		}
		for _, m := range members {
			if m.ch == nil {
				continue
			}
			select {
			case got := <-m.ch:
				if got == v {
					return "scope-close-early", fmt.Sprintf("%s: Feed.Send(%d) still delivered to tracked subscription %s (Send returned %d, %d untracked subscriber(s))", when, v, m.name, n, want)
				}
			default:
			}
		}
		if n != want {
			return "scope-close-early", fmt.Sprintf("%s: Feed.Send returned %d deliveries, only %d untracked subscriber(s) exist", when, n, want)
		}
		if free != nil {
			<-free
		}
		return "", ""
	}

	run.Current(fmt.Sprintf("scope-close round %d", round))
	c1 := make(chan struct{})
	go func() { sc.Close(); close(c1) }()
	select {
	case <-inUnsub: // Close#1 is inside the gated member's Unsubscribe
	case <-time.After(poolUserTimeout):
		return plan, "deadlock", "Close#1 never reached the Unsubscribe of a tracked subscription"
	}
	others := make(chan int, plan.Closers)
	for k := 2; k <= plan.Closers; k++ {
		k := k
		go func() { sc.Close(); others <- k }()
	}
	returned := 0
	select {
	case k := <-others:
		returned++
		// a Close call has returned while Close#1 is still (provably: the gate is shut) unsubscribing
		if kind, detail := check(fmt.Sprintf("Close#%d returned while Close#1 was still inside a tracked subscription's Unsubscribe", k), 1000+round); kind != "" {
			open()
			return plan, kind, detail
		}
	case <-time.After(scopeCloseGrace):
	}
	open()
	if !within(poolUserTimeout, func() {
		<-c1
		for ; returned < plan.Closers-1; returned++ {
			<-others
		}
	}) {
		return plan, "deadlock", "a SubscriptionScope.Close() call did not return after the slow member finished"
	}
	if kind, detail := check("after every Close returned", 2000+round); kind != "" {
		return plan, kind, detail
	}
	if c := sc.Count(); c != 0 {
		return plan, "api", fmt.Sprintf("scope.Count()=%d after Close", c)
	}
	var f2 event.Feed
	if w := sc.Track(f2.Subscribe(make(chan int, 1))); w != nil {
		return plan, "api", "Track after Close returned a non-nil subscription"
	}
	return plan, "", ""
}

func scopeCloseSection(run *hx.Run) {
	rounds := 16
	if run.Thorough() {
		rounds = 200
	}
	executed := 0
	for round := 1; round <= rounds; round++ {
		plan, kind, detail := scopeCloseRound(run, round, hx.NewRng(run.Seed*5000011+uint64(round)))
		executed++
		run.Count("scope-close:closers:" + fmt.Sprint(plan.Closers))
		if kind != "" {
			run.Violate(kind, kind+":scope-overlapping-close", map[string]interface{}{"scope_close_plan": plan}, "SubscriptionScope: "+detail)
			break
		}
	}
	run.Notes["scope_close_rounds"] = executed
}

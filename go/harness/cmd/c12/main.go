// c12: correspondence + direct-judgement harness for transaction signing (property C12).
// Drives the REAL types.SignTx / Sender / AsMessage / MakeSigner, RLP and JSON codecs of types.Transaction, TxPool.AddRemote
// and core.ApplyTransaction in-process.  The Lean model recomputes the signed payload (RLP) and its Keccak hash, the
// V/R/S validation and the chain-id arithmetic; secp256k1 is a parameter of the model, so every case carries the VALUES
// of crypto.Sign / crypto.Ecrecover it may need (a value the model asks for and does not find shows as a disagreement).
package main

import (
	"encoding/hex"
	"encoding/json"
	"errors"
	"fmt"
	"math/big"
	"strings"
	"time"

	"gitlab.com/aquachain/aquachain/aqua/event"
	"gitlab.com/aquachain/aquachain/aquadb"
	"gitlab.com/aquachain/aquachain/common"
	"gitlab.com/aquachain/aquachain/common/log"
	"gitlab.com/aquachain/aquachain/core"
	"gitlab.com/aquachain/aquachain/core/state"
	"gitlab.com/aquachain/aquachain/core/types"
	"gitlab.com/aquachain/aquachain/core/vm"
	"gitlab.com/aquachain/aquachain/crypto"
	"gitlab.com/aquachain/aquachain/params"
	"gitlab.com/aquachain/aquachain/rlp"
	"verifharness/hx"
)

var run *hx.Run
var violSeen = map[string]int{}

func violate(kind, sig string, input interface{}, detail string) {
	violSeen[kind+"|"+sig]++
	if violSeen[kind+"|"+sig] <= 3 {
		run.Violate(kind, sig, input, detail)
	} else {
		run.Count("violation:" + kind)
	}
}

var (
	curveN, _ = new(big.Int).SetString("fffffffffffffffffffffffffffffffebaaedce6af48a03bbfd25e8cd0364141", 16)
	halfN     = new(big.Int).Rsh(curveN, 1)
	big0      = new(big.Int)
	big1      = big.NewInt(1)
	big2      = big.NewInt(2)
)

// ---------------------------------------------------------------------------------------------------------------
// rendering

func hn(x *big.Int) string { return x.Text(16) }
func hu(x uint64) string   { return new(big.Int).SetUint64(x).Text(16) }

type raw struct {
	Nonce uint64
	Price *big.Int
	Gas   uint64
	To    []byte // empty = contract creation
	Value *big.Int
	Data  []byte
	V, R, S *big.Int
}

func (r raw) String() string {
	return strings.Join([]string{hu(r.Nonce), hn(r.Price), hu(r.Gas), hx.Hex(r.To), hn(r.Value), hx.Hex(r.Data), hn(r.V), hn(r.R), hn(r.S)}, " ")
}

func (r raw) clone() raw {
	c := r
	c.Price, c.Value, c.V, c.R, c.S = new(big.Int).Set(r.Price), new(big.Int).Set(r.Value), new(big.Int).Set(r.V), new(big.Int).Set(r.R), new(big.Int).Set(r.S)
	c.To, c.Data = append([]byte{}, r.To...), append([]byte{}, r.Data...)
	return c
}

func (r raw) encode() []byte {
	b, err := rlp.EncodeToBytes([]interface{}{r.Nonce, r.Price, r.Gas, r.To, r.Value, r.Data, r.V, r.R, r.S})
	if err != nil {
		panic(err)
	}
	return b
}

// tx decodes the raw fields into a fresh types.Transaction (fresh caches).
func (r raw) tx() (*types.Transaction, error) {
	var t types.Transaction
	if err := rlp.DecodeBytes(r.encode(), &t); err != nil {
		return nil, err
	}
	return &t, nil
}

func rawOf(t *types.Transaction) raw {
	v, r, s := t.RawSignatureValues()
	var to []byte
	if t.To() != nil {
		to = t.To().Bytes()
	}
	return raw{t.Nonce(), t.GasPrice(), t.Gas(), to, t.Value(), t.Data(), new(big.Int).Set(v), new(big.Int).Set(r), new(big.Int).Set(s)}
}

type sgn struct {
	kind  string   // F | H | E
	chain *big.Int // E only
}

func (s sgn) String() string {
	if s.kind == "E" {
		return "E:" + hn(s.chain)
	}
	return s.kind
}
func (s sgn) signer() types.Signer {
	switch s.kind {
	case "F":
		return types.FrontierSigner{}
	case "H":
		return types.HomesteadSigner{}
	}
	return types.NewEIP155Signer(s.chain)
}

func errClass(err error) string {
	switch {
	case err == nil:
		return "nil"
	case errors.Is(err, types.ErrInvalidSig):
		return "invalidSig"
	case errors.Is(err, types.ErrInvalidChainId):
		return "invalidChainId"
	case strings.Contains(err.Error(), "sender mismatch"):
		return "mismatch"
	case strings.Contains(err.Error(), "recover") || strings.Contains(err.Error(), "invalid public key"):
		return "recover"
	}
	m := err.Error()
	if len(m) > 40 {
		m = m[:40]
	}
	return "other:" + strings.ReplaceAll(m, " ", "_")
}

func sender(s sgn, t *types.Transaction) string {
	return hx.Safe(func() string {
		a, err := types.Sender(s.signer(), t)
		if err != nil {
			return "err " + errClass(err)
		}
		return "ok " + hex.EncodeToString(a[:])
	})
}

// ---------------------------------------------------------------------------------------------------------------
// oracle values of secp256k1

func inRange(x *big.Int) bool { return x.Sign() > 0 && x.Cmp(curveN) < 0 }

func ecrecover(h []byte, r, s *big.Int, rid byte) string {
	sig := make([]byte, 65)
	rb, sb := r.Bytes(), s.Bytes()
	copy(sig[32-len(rb):32], rb)
	copy(sig[64-len(sb):64], sb)
	sig[64] = rid
	pub, err := crypto.Ecrecover(h, sig)
	if err != nil || len(pub) == 0 || pub[0] != 4 {
		return "err"
	}
	return hex.EncodeToString(crypto.Keccak256(pub[1:])[12:])
}

// recoverOracle: Ecrecover results for the hashes `signers` would verify this transaction against, both recovery ids.
func recoverOracle(t *types.Transaction, r, s *big.Int, signers ...sgn) string {
	if !inRange(r) || !inRange(s) {
		return "-"
	}
	seen := map[string]bool{}
	var out []string
	add := func(h common.Hash) {
		if seen[string(h[:])] {
			return
		}
		seen[string(h[:])] = true
		for rid := byte(0); rid < 2; rid++ {
			out = append(out, fmt.Sprintf("%x:%s:%s:%d=%s", h[:], hn(r), hn(s), rid, ecrecover(h[:], r, s, rid)))
		}
	}
	add(types.HomesteadSigner{}.Hash(t))
	for _, sg := range signers {
		add(sg.signer().Hash(t))
	}
	return strings.Join(out, ",")
}

// ---------------------------------------------------------------------------------------------------------------
// generators

func genBig(rng *hx.Rng, maxBits int) *big.Int {
	switch rng.Intn(6) {
	case 0:
		return new(big.Int)
	case 1:
		return big.NewInt(int64(rng.Intn(300)))
	case 2:
		return new(big.Int).SetUint64(rng.U64())
	default:
		b := rng.Bytes(1 + rng.Intn(maxBits/8))
		return new(big.Int).SetBytes(b)
	}
}

func genData(rng *hx.Rng) []byte {
	switch rng.Intn(8) {
	case 0:
		return nil
	case 1:
		return []byte{byte(rng.Intn(0x80))}
	case 2:
		return []byte{byte(0x80 + rng.Intn(0x80))}
	case 3:
		return rng.Bytes(55)
	case 4:
		return rng.Bytes(56)
	case 5:
		return rng.Bytes(256 + rng.Intn(100))
	default:
		return rng.Bytes(1 + rng.Intn(80))
	}
}

func genUnsigned(rng *hx.Rng) raw {
	var nonce uint64
	switch rng.Intn(5) {
	case 0:
		nonce = 0
	case 1:
		nonce = uint64(rng.Intn(200))
	case 2:
		nonce = ^uint64(0)
	default:
		nonce = rng.U64() >> uint(rng.Intn(64))
	}
	var to []byte
	if rng.Intn(5) != 0 {
		to = rng.Bytes(20)
		if rng.Intn(10) == 0 {
			to = make([]byte, 20)
		}
	}
	return raw{nonce, genBig(rng, 200), 21000 + rng.U64()>>uint(20+rng.Intn(44)), to, genBig(rng, 200), genData(rng), new(big.Int), new(big.Int), new(big.Int)}
}

func (r raw) unsignedTx() *types.Transaction {
	if len(r.To) == 0 {
		return types.NewContractCreation(r.Nonce, r.Value, r.Gas, r.Price, r.Data)
	}
	return types.NewTransaction(r.Nonce, common.BytesToAddress(r.To), r.Value, r.Gas, r.Price, r.Data)
}

func pow2(n uint) *big.Int { return new(big.Int).Lsh(big1, n) }

// chain ids: small, the V = 255/256 straddle (110), the real networks, around 2^63/2^64 (uint64 paths of deriveChainId and
// UnmarshalJSON), beyond 64 bits, close to the 256-bit JSON limit.
func chainLattice() []*big.Int {
	out := []*big.Int{big.NewInt(1), big.NewInt(2), big.NewInt(3), big.NewInt(109), big.NewInt(110), big.NewInt(111), big.NewInt(1337),
		big.NewInt(61717561), big.NewInt(617175611), pow2(31), pow2(32)}
	for _, d := range []int64{-19, -18, -17, -1, 0, 1} {
		out = append(out, new(big.Int).Add(pow2(63), big.NewInt(d)))
		out = append(out, new(big.Int).Add(pow2(64), big.NewInt(d)))
	}
	out = append(out, pow2(70), pow2(128), pow2(200), new(big.Int).Sub(pow2(254), big.NewInt(40)))
	return out
}

func genChain(rng *hx.Rng) *big.Int {
	l := chainLattice()
	if rng.Intn(3) == 0 {
		return new(big.Int).Add(genBig(rng, 100), big1)
	}
	return l[rng.Intn(len(l))]
}

func genKey(rng *hx.Rng) []byte {
	for {
		b := rng.Bytes(32)
		if rng.Intn(8) == 0 {
			b[0], b[1] = 0, 0
		}
		v := new(big.Int).SetBytes(b)
		if v.Sign() > 0 && v.Cmp(curveN) < 0 {
			return b
		}
	}
}

// ---------------------------------------------------------------------------------------------------------------
// cases

// sndCase: types.Sender under signer s on a fresh object: model case + outcome.
func sndCase(s sgn, r raw) string {
	t, err := r.tx()
	if err != nil {
		return "undecodable"
	}
	run.Current("snd " + s.String() + " " + r.String())
	out := sender(s, t)
	run.Case("snd "+s.String()+" "+r.String()+" "+recoverOracle(t, r.R, r.S, s), out)
	f := strings.Fields(out)
	key := "snd:" + s.kind + ":" + f[0]
	if f[0] == "err" && len(f) > 1 {
		key += ":" + f[1]
	}
	run.Count(key)
	if f[0] == "ok" {
		run.Count("snd:accepted")
		specAccepted(s, r, "types.Sender")
	}
	return out
}

// specAccepted: direct Spec judgement of an ACCEPTED (V, R, S): in range, V of the signer's form, low S from Homestead on.
func specAccepted(s sgn, r raw, api string) {
	in := map[string]interface{}{"signer": s.String(), "tx": r.String(), "rlp": hex.EncodeToString(r.encode())}
	if !inRange(r.R) || !inRange(r.S) {
		violate("out-of-range-accepted", api+" under "+s.kind, in, "accepted R or S outside [1, N-1]")
	}
	v27 := r.V.Cmp(big.NewInt(27)) == 0 || r.V.Cmp(big.NewInt(28)) == 0
	protectedOK := false
	if s.kind == "E" {
		base := new(big.Int).Add(new(big.Int).Mul(s.chain, big2), big.NewInt(35))
		d := new(big.Int).Sub(r.V, base)
		protectedOK = d.Sign() >= 0 && d.Cmp(big1) <= 0 && !v27
	}
	if !v27 && !protectedOK {
		violate("out-of-range-accepted", api+" under "+s.kind, in, "accepted V that is neither 27/28 nor 35+2*chainId+{0,1}")
	}
	if r.S.Cmp(halfN) > 0 {
		switch {
		case s.kind == "F":
			run.Count("info:frontier-signer-accepts-high-S(by-design)")
		case s.kind == "E" && protectedOK:
			violate("high-s-accepted", api+" under EIP155Signer: protected tx with S > N/2 accepted", in, "malleable signature (S in the upper half) accepted; twin of the low-S transaction with a different hash")
		default:
			violate("high-s-accepted", api+" under "+s.kind+": S > N/2 accepted", in, "malleable signature accepted")
		}
	}
}

// mustNotBe: after a mutation of a signed transaction the sender must not be the original address.
func mustNotBe(api string, s sgn, what string, mutated raw, out string, orig common.Address, origRaw raw) {
	if out == "ok "+hex.EncodeToString(orig[:]) {
		in := map[string]interface{}{"signer": s.String(), "original": origRaw.String(), "mutated": mutated.String(), "mutation": what}
		if what == "malleate(s->N-s,v^1)" && s.kind == "E" {
			violate("high-s-accepted", api+" under EIP155Signer: protected tx with S > N/2 accepted", in, "the malleated twin (S -> N-S, recovery bit flipped) is attributed to the same sender; hash differs")
			return
		}
		if what == "malleate(s->N-s,v^1)" && s.kind == "F" {
			run.Count("info:frontier-signer-accepts-high-S(by-design)")
			return
		}
		violate("mutation-same-sender", api+" "+s.kind+" "+what, in, "a mutated signed transaction is still attributed to the original sender")
	}
}

type signedTx struct {
	s    sgn
	key  []byte
	addr common.Address
	t    *types.Transaction
	r    raw
}

// signCase: SignTx with the real code; model case `sign`; direct judgement of sign-then-sender.
func signCase(rng *hx.Rng, s sgn, u raw, key []byte) *signedTx {
	priv := crypto.ToECDSAUnsafe(key)
	addr := crypto.PubkeyToAddress(priv.PubKey())
	ut := u.unsignedTx()
	h := s.signer().Hash(ut)
	run.Current("sign " + s.String() + " " + u.String())
	var stx *types.Transaction
	out := hx.Safe(func() string {
		t, err := types.SignTx(ut, s.signer(), priv)
		if err != nil {
			return "err " + errClass(err)
		}
		stx = t
		v, r, ss := t.RawSignatureValues()
		return "ok " + hn(v) + " " + hn(r) + " " + hn(ss)
	})
	// oracle: the signature crypto.Sign produces for this hash (deterministic, RFC 6979) and what it recovers to
	sig, err := crypto.Sign(h[:], priv)
	if err != nil {
		panic(err)
	}
	r, ss := new(big.Int).SetBytes(sig[:32]), new(big.Int).SetBytes(sig[32:64])
	signO := fmt.Sprintf("%x=%s:%s:%d", h[:], hn(r), hn(ss), sig[64])
	// the signed object the model will build has the same fields; recover values for every hash it may use
	probe := u.clone()
	probe.R, probe.S = r, ss
	pt, _ := probe.tx()
	recO := "-"
	if pt != nil {
		recO = recoverOracle(pt, r, ss, s)
	}
	run.Case("sign "+s.String()+" "+u.String()+" "+hex.EncodeToString(key)+" "+hex.EncodeToString(addr[:])+" "+signO+" "+recO, out)
	in := map[string]interface{}{"signer": s.String(), "tx": u.String(), "key": hex.EncodeToString(key)}
	if stx == nil {
		if s.kind == "E" && s.chain.Sign() == 0 {
			run.Count("sign:chain0:" + out)
			return nil
		}
		violate("sign-then-sender", "SignTx "+s.kind, in, "SignTx failed: "+out)
		return nil
	}
	run.Count("sign:" + s.kind + ":ok")
	if got := sender(s, stx); got != "ok "+hex.EncodeToString(addr[:]) {
		violate("sign-then-sender", "Sender "+s.kind, in, "signed transaction attributed to "+got+" want "+hex.EncodeToString(addr[:]))
	}
	if msg, err := stx.AsMessage(s.signer()); err != nil || msg.From() != addr {
		violate("sign-then-sender", "AsMessage "+s.kind, in, fmt.Sprintf("AsMessage: from %x err %v", msg.From(), err))
	}
	rr := rawOf(stx)
	if rr.S.Cmp(halfN) > 0 {
		violate("sign-then-sender", "SignTx high S", in, "crypto.Sign produced S > N/2")
	}
	vbits := rr.V.BitLen()
	switch {
	case vbits <= 8:
		run.Count("sign:V<=8bits")
	case vbits <= 64:
		run.Count("sign:V<=64bits")
	case vbits <= 256:
		run.Count("sign:V<=256bits")
	}
	return &signedTx{s, key, addr, stx, rr}
}

// codecs: hash / RLP / JSON round trips of a signed transaction (direct) + model cases for hash, sighash, json.
func codecCases(st *signedTx) {
	r := st.r
	in := map[string]interface{}{"signer": st.s.String(), "tx": r.String()}
	run.Current("codec " + r.String())
	run.Case("hash "+r.String(), hex.EncodeToString(st.t.Hash().Bytes()))
	run.Case("sighash "+st.s.String()+" "+r.String(), hex.EncodeToString(st.s.signer().Hash(st.t).Bytes()))
	// RLP
	enc, _ := rlp.EncodeToBytes(st.t)
	var d types.Transaction
	if err := rlp.DecodeBytes(enc, &d); err != nil {
		violate("reencoding", "RLP decode", in, err.Error())
	} else {
		if d.Hash() != st.t.Hash() {
			violate("reencoding", "RLP hash", in, "hash changed by an RLP round trip")
		}
		if got := sender(st.s, &d); got != "ok "+hex.EncodeToString(st.addr[:]) {
			violate("reencoding", "RLP sender", in, "sender after RLP round trip: "+got)
		}
		if re, _ := rlp.EncodeToBytes(&d); string(re) != string(enc) {
			violate("reencoding", "RLP re-encode", in, "re-encoding differs")
		}
	}
	run.Case("rlp "+hex.EncodeToString(enc), "ok "+r.String())
	// JSON
	js, err := json.Marshal(st.t)
	if err != nil {
		violate("reencoding", "JSON marshal", in, err.Error())
		return
	}
	var m map[string]interface{}
	json.Unmarshal(js, &m)
	run.Case("json "+r.String(), jsonFields(m))
	var jd types.Transaction
	if err := json.Unmarshal(js, &jd); err != nil {
		if r.V.BitLen() > 256 {
			run.Count("info:json-rejects-V>256bits(hexutil.Big)")
		} else {
			violate("reencoding", "JSON decode", in, err.Error()+" "+string(js))
		}
	} else {
		if jd.Hash() != st.t.Hash() {
			violate("reencoding", "JSON hash", in, "hash changed by a JSON round trip")
		}
		if got := sender(st.s, &jd); got != "ok "+hex.EncodeToString(st.addr[:]) {
			violate("reencoding", "JSON sender", in, "sender after JSON round trip: "+got)
		}
		run.Case("unjson "+jsonFields(m), "ok "+rawOf(&jd).String())
		hashConsistent("JSON round trip", st.s, &jd, in)
	}
	run.Count("codec")
}

// hashConsistent: a transaction object that came out of a decoder must report, as Hash(), the Keccak of ITS OWN RLP encoding
// (recomputed here), must keep that hash through an RLP round trip, and must keep its sender.  (A decoder that trusts an
// advertised hash — the JSON "hash" member — breaks "hash survives every supported re-encoding".)
func hashConsistent(api string, s sgn, t *types.Transaction, in map[string]interface{}) {
	enc, err := rlp.EncodeToBytes(t)
	if err != nil {
		violate("reencoding", api+" re-encode", in, err.Error())
		return
	}
	want := common.BytesToHash(crypto.Keccak256(enc))
	r := rawOf(t)
	run.Case("hash "+r.String(), hex.EncodeToString(t.Hash().Bytes()))
	if t.Hash() != want {
		violate("reencoding", api+": Hash() is not the hash of the transaction's own encoding", in,
			fmt.Sprintf("Hash() = %x, keccak(rlp(tx)) = %x", t.Hash(), want))
	}
	var d types.Transaction
	if err := rlp.DecodeBytes(enc, &d); err != nil {
		violate("reencoding", api+" RLP decode of the re-encoding", in, err.Error())
		return
	}
	if d.Hash() != want || d.Hash() != t.Hash() {
		violate("reencoding", api+": hash changes through an RLP round trip", in, fmt.Sprintf("before %x after %x", t.Hash(), d.Hash()))
	}
	if a, b := sender(s, t), sender(s, &d); a != b {
		violate("reencoding", api+": sender changes through an RLP round trip", in, a+" vs "+b)
	}
}

// jsonHashCases: JSON inputs whose "hash" member is inconsistent with the content: the hash member edited / replaced /
// removed, and every signed field edited with the advertised hash kept.
func jsonHashCases(rng *hx.Rng, st *signedTx, other *signedTx) {
	js, _ := json.Marshal(st.t)
	var m map[string]interface{}
	json.Unmarshal(js, &m)
	orig, _ := m["hash"].(string)
	type variant struct {
		what string
		edit func(m map[string]interface{})
	}
	flip := func(h string) string {
		b := []byte(h)
		i := 2 + rng.Intn(len(b)-2)
		if b[i] == '0' {
			b[i] = '1'
		} else {
			b[i] = '0'
		}
		return string(b)
	}
	bump := func(k string) func(m map[string]interface{}) {
		return func(m map[string]interface{}) {
			v, _ := new(big.Int).SetString(strings.TrimPrefix(m[k].(string), "0x"), 16)
			m[k] = "0x" + v.Add(v, big1).Text(16)
		}
	}
	vs := []variant{
		{"hash edited", func(m map[string]interface{}) { m["hash"] = flip(orig) }},
		{"hash zero", func(m map[string]interface{}) { m["hash"] = "0x" + strings.Repeat("0", 64) }},
		{"hash of another tx", func(m map[string]interface{}) { m["hash"] = other.t.Hash().Hex() }},
		{"hash removed", func(m map[string]interface{}) { delete(m, "hash") }},
		{"nonce edited, hash kept", bump("nonce")},
		{"gasPrice edited, hash kept", bump("gasPrice")},
		{"gas edited, hash kept", bump("gas")},
		{"value edited, hash kept", bump("value")},
		{"input edited, hash kept", func(m map[string]interface{}) { m["input"] = m["input"].(string) + "00" }},
		{"to edited, hash kept", func(m map[string]interface{}) {
			if _, ok := m["to"].(string); ok {
				m["to"] = "0x" + hex.EncodeToString(rng.Bytes(20))
			} else {
				m["to"] = "0x" + strings.Repeat("1", 40)
			}
		}},
		{"s edited, hash kept", bump("s")},
	}
	for _, v := range vs {
		m2 := map[string]interface{}{}
		for kk, vv := range m {
			m2[kk] = vv
		}
		v.edit(m2)
		j2, _ := json.Marshal(m2)
		var jd types.Transaction
		run.Current("jsonhash " + v.what)
		if err := json.Unmarshal(j2, &jd); err != nil {
			run.Count("jsonhash:" + v.what + ":err")
			continue
		}
		run.Count("jsonhash:" + v.what + ":ok")
		in := map[string]interface{}{"json": string(j2), "variant": v.what, "signer": st.s.String()}
		hashConsistent("JSON ("+v.what+")", st.s, &jd, in)
		contentSame := rawOf(&jd).String() == st.r.String()
		if contentSame && jd.Hash() != st.t.Hash() {
			violate("reencoding", "JSON ("+v.what+"): same content, different hash", in, fmt.Sprintf("%x vs %x", jd.Hash(), st.t.Hash()))
		}
		if !contentSame && jd.Hash() == st.t.Hash() {
			violate("reencoding", "JSON ("+v.what+"): different content reports the original hash", in, fmt.Sprintf("%x", jd.Hash()))
		}
		if !contentSame && !sameSigned(rawOf(&jd), st.r) {
			if got := sender(st.s, &jd); got == "ok "+hex.EncodeToString(st.addr[:]) {
				violate("mutation-same-sender", "JSON "+v.what, in, "edited JSON transaction still attributed to the signer")
			}
		}
	}
}

var jsonKeys = []string{"nonce", "gasPrice", "gas", "to", "value", "input", "v", "r", "s"}

func jsonFields(m map[string]interface{}) string {
	out := make([]string, len(jsonKeys))
	for i, k := range jsonKeys {
		switch x := m[k].(type) {
		case string:
			out[i] = "S" + hx.Hex([]byte(x))
		case nil:
			out[i] = "N"
		default:
			out[i] = "O"
		}
	}
	return strings.Join(out, " ")
}

// unjsonMutations: the JSON object with one field replaced by a malformed / alternative spelling.
func unjsonMutations(rng *hx.Rng, st *signedTx) {
	js, _ := json.Marshal(st.t)
	var m map[string]interface{}
	json.Unmarshal(js, &m)
	for _, k := range jsonKeys {
		s, _ := m[k].(string)
		var alts []string
		if len(s) >= 2 {
			body := s[2:]
			alts = []string{"0x0" + body, "0X" + body, body, "0x", "0x" + strings.ToUpper(body), "0x" + body + "0", "0x" + strings.Repeat("f", 17), "0x" + strings.Repeat("f", 64),
				"0x1" + strings.Repeat("0", 64), "0x" + body + "g", "", "0x0", "0x00"}
			if len(body) > 1 {
				alts = append(alts, "0x"+body[1:], "0x"+body[:len(body)-1])
			}
		} else {
			alts = []string{"0x", "0x" + strings.Repeat("0", 40), "0x" + strings.Repeat("a", 39), "0x" + strings.Repeat("a", 41), ""}
		}
		if !run.Thorough() {
			alts = []string{alts[rng.Intn(len(alts))], alts[rng.Intn(len(alts))], alts[rng.Intn(len(alts))]}
		}
		for _, a := range alts {
			m2 := map[string]interface{}{}
			for kk, vv := range m {
				m2[kk] = vv
			}
			m2[k] = a
			j2, _ := json.Marshal(m2)
			var jd types.Transaction
			run.Current("unjson " + string(j2))
			out := hx.Safe(func() string {
				if err := json.Unmarshal(j2, &jd); err != nil {
					return "err"
				}
				return "ok " + rawOf(&jd).String()
			})
			run.Case("unjson "+jsonFields(m2), out)
			run.Count("unjson:" + strings.Fields(out)[0])
			if strings.HasPrefix(out, "ok") {
				hashConsistent("JSON ("+k+" respelled)", st.s, &jd, map[string]interface{}{"json": string(j2)})
				// a decoded transaction must keep hash and sender iff it is the same transaction; a different one must not be attributed to the signer
				if jd.Hash() != st.t.Hash() {
					got := sender(st.s, &jd)
					if got == "ok "+hex.EncodeToString(st.addr[:]) && !sameSigned(rawOf(&jd), st.r) {
						violate("mutation-same-sender", "JSON "+k, map[string]interface{}{"json": string(j2)}, "altered JSON field still attributed to the signer")
					}
				}
			}
		}
		// missing required field
		if k != "to" {
			m2 := map[string]interface{}{}
			for kk, vv := range m {
				if kk != k {
					m2[kk] = vv
				}
			}
			j2, _ := json.Marshal(m2)
			var jd types.Transaction
			if err := json.Unmarshal(j2, &jd); err == nil {
				violate("reencoding", "JSON missing "+k, map[string]interface{}{"json": string(j2)}, "required field missing but decode succeeded")
			}
		}
	}
}

// flipRid flips the recovery id inside V: both 27/28 and 35+2c+{0,1} put id 0 on the odd value.
func flipRid(v *big.Int) {
	if v.Bit(0) == 1 {
		v.Add(v, big1)
	} else {
		v.Sub(v, big1)
	}
}

func sameSigned(a, b raw) bool {
	return a.Nonce == b.Nonce && a.Price.Cmp(b.Price) == 0 && a.Gas == b.Gas && string(a.To) == string(b.To) && a.Value.Cmp(b.Value) == 0 && string(a.Data) == string(b.Data)
}

// mutations of a signed transaction: every signed field, every signature component, chain id, bit flips of the encoding.
func mutationCases(rng *hx.Rng, st *signedTx, allBits bool) {
	type mut struct {
		what string
		r    raw
	}
	var ms []mut
	add := func(what string, f func(r *raw)) {
		c := st.r.clone()
		f(&c)
		ms = append(ms, mut{what, c})
	}
	add("nonce+1", func(r *raw) { r.Nonce++ })
	add("nonce^bit", func(r *raw) { r.Nonce ^= 1 << uint(rng.Intn(64)) })
	add("price+1", func(r *raw) { r.Price.Add(r.Price, big1) })
	add("gas+1", func(r *raw) { r.Gas++ })
	add("value+1", func(r *raw) { r.Value.Add(r.Value, big1) })
	add("value*256", func(r *raw) { r.Value.Lsh(r.Value, 8); r.Value.Add(r.Value, big1) })
	if len(st.r.To) > 0 {
		add("to^bit", func(r *raw) { r.To[rng.Intn(20)] ^= 1 << uint(rng.Intn(8)) })
		add("to->nil", func(r *raw) { r.To = nil })
	} else {
		add("nil->to", func(r *raw) { r.To = make([]byte, 20) })
	}
	add("data+byte", func(r *raw) { r.Data = append(r.Data, 0) })
	if len(st.r.Data) > 0 {
		add("data^bit", func(r *raw) { r.Data[rng.Intn(len(r.Data))] ^= 1 << uint(rng.Intn(8)) })
		add("data-byte", func(r *raw) { r.Data = r.Data[:len(r.Data)-1] })
	}
	add("v^1", func(r *raw) { flipRid(r.V) })
	add("v+2(chain+1)", func(r *raw) { r.V.Add(r.V, big2) })
	add("v-2(chain-1)", func(r *raw) { r.V.Sub(r.V, big2) })
	add("v+1", func(r *raw) { r.V.Add(r.V, big1) })
	add("v-1", func(r *raw) { r.V.Sub(r.V, big1) })
	add("v->27+rid", func(r *raw) { r.V = big.NewInt(27 + int64(1-r.V.Bit(0))) }) // strip the chain id (odd V carries recovery id 0)
	add("r+1", func(r *raw) { r.R.Add(r.R, big1) })
	add("r-1", func(r *raw) { r.R.Sub(r.R, big1) })
	add("s+1", func(r *raw) { r.S.Add(r.S, big1) })
	add("s-1", func(r *raw) { r.S.Sub(r.S, big1) })
	add("r^bit", func(r *raw) { i := rng.Intn(256); r.R.SetBit(r.R, i, r.R.Bit(i)^1) })
	add("s^bit", func(r *raw) { i := rng.Intn(255); r.S.SetBit(r.S, i, r.S.Bit(i)^1) })
	add("r<->s", func(r *raw) { r.R, r.S = r.S, r.R })
	add("s->N-s", func(r *raw) { r.S.Sub(curveN, r.S) })
	add("r->N-r", func(r *raw) { r.R.Sub(curveN, r.R) })
	add("malleate(s->N-s,v^1)", func(r *raw) { r.S.Sub(curveN, r.S); flipRid(r.V) })
	// V with bits above the low byte set: byte(V-27) would still be the recovery id (V + 256k), beyond a machine word, and
	// every single-bit flip of V (bits 0..70): a changed V must never keep the sender.
	for _, k := range []*big.Int{big1, big2, big.NewInt(255), pow2(8), pow2(24), pow2(55)} {
		k := k
		add("v+256*"+hn(k), func(r *raw) { r.V.Add(r.V, new(big.Int).Mul(k, big.NewInt(256))) })
	}
	add("v+2^63", func(r *raw) { r.V.Add(r.V, pow2(63)) })
	add("v+2^64", func(r *raw) { r.V.Add(r.V, pow2(64)) })
	for bit := 0; bit <= 70; bit++ {
		bit := bit
		add(fmt.Sprintf("v^bit%d", bit), func(r *raw) { r.V.SetBit(r.V, bit, r.V.Bit(bit)^1) })
	}
	for _, m := range ms {
		if m.r.V.Sign() < 0 || m.r.R.Sign() < 0 || m.r.S.Sign() < 0 || m.r.String() == st.r.String() {
			continue // not representable / not a change
		}
		out := sndCase(st.s, m.r)
		run.Count("mutation:" + m.what + ":" + strings.Fields(out)[0])
		mustNotBe("types.Sender", st.s, m.what, m.r, out, st.addr, st.r)
	}
	// the signed transaction under every other signer kind / chain id
	others := []sgn{{"F", nil}, {"H", nil}, {"E", big.NewInt(1)}, {"E", genChain(rng)}}
	if st.s.kind == "E" {
		others = append(others, sgn{"E", new(big.Int).Add(st.s.chain, big1)}, sgn{"E", new(big.Int).Sub(st.s.chain, big1)})
	}
	for _, o := range others {
		if o.kind == "E" && o.chain.Sign() < 0 {
			continue
		}
		out := sndCase(o, st.r)
		same := o.kind == st.s.kind && (o.kind != "E" || o.chain.Cmp(st.s.chain) == 0)
		if st.s.kind == "E" && !same && strings.HasPrefix(out, "ok") {
			violate("replay", "types.Sender protected tx under "+o.kind, map[string]interface{}{"tx": st.r.String(), "signed-for": st.s.String(), "queried": o.String()},
				"a replay-protected transaction is attributed under another signer: "+out)
		}
		run.Count("foreign:" + st.s.kind + "->" + o.kind + ":" + strings.Fields(out)[0])
	}
	// single-bit flips of the RLP encoding
	enc := st.r.encode()
	nbits := len(enc) * 8
	step := 1
	if !allBits {
		step = 1 + nbits/48
	}
	for bit := rng.Intn(step); bit < nbits; bit += step {
		e2 := append([]byte{}, enc...)
		e2[bit/8] ^= 1 << uint(bit%8)
		var d types.Transaction
		run.Current(fmt.Sprintf("bitflip %x", e2))
		res := hx.Safe(func() string {
			if err := rlp.DecodeBytes(e2, &d); err != nil {
				return "err"
			}
			return "ok " + rawOf(&d).String()
		})
		run.Case("rlp "+hex.EncodeToString(e2), res)
		run.Count("bitflip:decode:" + strings.Fields(res)[0])
		if strings.HasPrefix(res, "ok") {
			dr := rawOf(&d)
			out := sndCase(st.s, dr)
			mustNotBe("types.Sender", st.s, fmt.Sprintf("bitflip@%d", bit), dr, out, st.addr, st.r)
			if d.Hash() == st.t.Hash() {
				violate("reencoding", "bitflip same hash", map[string]interface{}{"rlp": hex.EncodeToString(e2)}, "a different encoding has the same transaction hash")
			}
		}
	}
}

// lattice: V/R/S at and around the boundaries, under every signer kind.
func latticeCases(rng *hx.Rng, thorough bool) {
	nm1 := new(big.Int).Sub(curveN, big1)
	np1 := new(big.Int).Add(curveN, big1)
	rs := []*big.Int{big0, big1, big2, halfN, new(big.Int).Add(halfN, big1), new(big.Int).Sub(halfN, big1), nm1, curveN, np1, new(big.Int).Sub(pow2(256), big1), pow2(256)}
	chains := []*big.Int{big.NewInt(1), big.NewInt(110), big.NewInt(61717561), new(big.Int).Sub(pow2(63), big.NewInt(18)), pow2(64), pow2(70)}
	u := genUnsigned(rng)
	// a real signature to start from, so that some lattice points recover
	key := genKey(rng)
	for ci, c := range chains {
		sE := sgn{"E", c}
		base := new(big.Int).Add(new(big.Int).Mul(c, big2), big.NewInt(35))
		vs := []*big.Int{big0, big1, big.NewInt(26), big.NewInt(27), big.NewInt(28), big.NewInt(29), big.NewInt(35), big.NewInt(36), big.NewInt(255), big.NewInt(256),
			new(big.Int).Sub(base, big2), new(big.Int).Sub(base, big1), base, new(big.Int).Add(base, big1), new(big.Int).Add(base, big2), new(big.Int).Add(base, big.NewInt(3)),
			new(big.Int).Sub(new(big.Int).Mul(c, big2), big.NewInt(19)), new(big.Int).Sub(new(big.Int).Mul(c, big2), big.NewInt(20)), // V - 2c - 8 = -27 / -28
			pow2(64), new(big.Int).Sub(pow2(64), big1), new(big.Int).Add(pow2(64), big.NewInt(27)),
			big.NewInt(283), big.NewInt(284), big.NewInt(27 + 512), big.NewInt(28 + 65536), new(big.Int).Add(pow2(32), big.NewInt(27)), new(big.Int).Add(pow2(63), big.NewInt(28)),
			new(big.Int).Add(base, big.NewInt(256)), new(big.Int).Add(base, pow2(40))}
		st := signCase(rng, sE, u, key)
		for _, v := range vs {
			if v.Sign() < 0 {
				continue
			}
			for ri, r := range rs {
				for si, s := range rs {
					if !thorough && (ri+si+ci)%3 != 0 && !(ri == 1 && si == 1) {
						continue
					}
					x := u.clone()
					x.V, x.R, x.S = v, r, s
					for _, sg := range []sgn{sE, {"H", nil}, {"F", nil}} {
						sndCase(sg, x)
						run.Count("lattice")
					}
				}
			}
			if st != nil {
				// the real (r, s) and its high-S twin with every lattice V
				for _, s := range []*big.Int{st.r.S, new(big.Int).Sub(curveN, st.r.S)} {
					x := st.r.clone()
					x.V, x.S = v, s
					for _, sg := range []sgn{sE, {"H", nil}, {"F", nil}} {
						sndCase(sg, x)
						run.Count("lattice")
					}
				}
			}
		}
	}
}

// cacheCases: one transaction OBJECT queried under a sequence of signers; every answer must equal the uncached one.
func cacheCases(rng *hx.Rng, st *signedTx, r raw, label string) {
	seqs := [][]sgn{}
	alt := []sgn{{"F", nil}, {"H", nil}, {"E", big.NewInt(1)}, {"E", big.NewInt(5)}}
	if st.s.kind == "E" {
		alt = append(alt, st.s, sgn{"E", new(big.Int).Add(st.s.chain, big1)})
	}
	for n := 0; n < 4; n++ {
		var q []sgn
		for i := 0; i < 2+rng.Intn(5); i++ {
			if rng.Intn(3) == 0 {
				q = append(q, st.s)
			} else {
				q = append(q, alt[rng.Intn(len(alt))])
			}
		}
		seqs = append(seqs, q)
	}
	seqs = append(seqs, []sgn{{"F", nil}, {"H", nil}, {"F", nil}, st.s, {"H", nil}})
	for _, q := range seqs {
		t, err := r.tx()
		if err != nil {
			return
		}
		var outs, names []string
		for _, sg := range q {
			run.Current("cache " + label)
			got := sender(sg, t) // same object: the cache is live
			fresh, _ := r.tx()
			want := sender(sg, fresh)
			if got != want {
				violate("cache", "types.Sender cached under "+sg.kind, map[string]interface{}{"tx": r.String(), "sequence": fmt.Sprint(q)}, "cached answer "+got+" differs from uncached "+want)
			}
			outs = append(outs, strings.ReplaceAll(got, " ", "_"))
			names = append(names, sg.String())
		}
		run.Case("cache "+strings.Join(names, ";")+" "+r.String()+" "+recoverOracle(t, r.R, r.S, q...), strings.Join(outs, "|"))
		run.Count("cache:" + label)
	}
}

// lifeCases: object-lifetime sequences on ONE transaction object: (Hash | Size | Sender under S1 | nothing), then
// SignTx / WithSignature with (same key | other key) x (same signer | other chain id | other signer kind) or with arbitrary
// signature bytes, then the same observations on the NEW object.  Every observation on a live object must equal the
// observation on a fresh RLP decode of that object's encoding (no cache can be stale), and a SignTx result must be
// attributed to the signing key.
func lifeCases(rng *hx.Rng, n int) {
	observe := func(t *types.Transaction, op string, sg sgn) string {
		switch op {
		case "h":
			return "h:" + hex.EncodeToString(t.Hash().Bytes())
		case "z":
			return fmt.Sprintf("z:%d", int(t.Size()))
		}
		return strings.ReplaceAll(sender(sg, t), " ", "_")
	}
	for i := 0; i < n; i++ {
		u := genUnsigned(rng)
		keyA, keyB := genKey(rng), genKey(rng)
		c1 := genChain(rng)
		s1 := []sgn{{"E", c1}, {"H", nil}, {"F", nil}}[rng.Intn(3)]
		var cur *types.Transaction
		switch i % 3 {
		case 0:
			cur = u.unsignedTx()
		case 1:
			t, err := types.SignTx(u.unsignedTx(), s1.signer(), crypto.ToECDSAUnsafe(keyA))
			if err != nil {
				continue
			}
			cur = t
		default:
			t, err := types.SignTx(u.unsignedTx(), s1.signer(), crypto.ToECDSAUnsafe(keyA))
			if err != nil {
				continue
			}
			r0 := rawOf(t)
			cur, _ = r0.tx()
		}
		start := rawOf(cur)
		var ops, outs, recs []string
		in := map[string]interface{}{"start": start.String(), "keyA": hex.EncodeToString(keyA), "keyB": hex.EncodeToString(keyB)}
		do := func(op string, sg sgn) {
			run.Current("life " + op)
			got := hx.Safe(func() string { return observe(cur, op, sg) })
			r := rawOf(cur)
			fresh, err := r.tx()
			want := "undecodable"
			if err == nil {
				want = observe(fresh, op, sg)
				if op == "h" {
					want = "h:" + hex.EncodeToString(crypto.Keccak256(r.encode()))
				}
				if op == "z" {
					want = fmt.Sprintf("z:%d", len(r.encode()))
				}
			}
			name := op
			if op == "s" {
				name = "s=" + sg.String()
				if o := recoverOracle(cur, r.R, r.S, sg); o != "-" {
					recs = append(recs, o)
				}
			}
			ops = append(ops, name)
			outs = append(outs, got)
			in["ops"] = strings.Join(ops, ";")
			if got != want {
				what := map[string]string{"h": "Hash() is not the hash of the object's own encoding", "z": "Size() is not the length of the object's own encoding", "s": "Sender differs from the sender of a fresh decode of the same transaction"}[op]
				violate("stale-cache", "object lifetime: "+what, in, "after "+strings.Join(ops, ";")+": got "+got+" want "+want)
			}
		}
		pre := func(t sgn) {
			for _, op := range []string{"h", "z", "s"} {
				if rng.Intn(3) != 0 {
					do(op, t)
				}
			}
		}
		pre(s1)
		rounds := 1 + rng.Intn(3)
		for rd := 0; rd < rounds; rd++ {
			// choose the re-signing
			s2 := s1
			switch rng.Intn(4) {
			case 1:
				s2 = sgn{"E", new(big.Int).Add(genChain(rng), big1)}
			case 2:
				s2 = []sgn{{"H", nil}, {"F", nil}, {"E", big.NewInt(int64(1 + rng.Intn(1000)))}}[rng.Intn(3)]
			}
			key := keyA
			if rng.Bool() {
				key = keyB
			}
			priv := crypto.ToECDSAUnsafe(key)
			var sig []byte
			real := rng.Intn(4) != 0
			if real {
				h := s2.signer().Hash(cur)
				sig, _ = crypto.Sign(h[:], priv)
			} else { // arbitrary signature bytes through WithSignature directly
				sig = make([]byte, 65)
				copy(sig[0:32], new(big.Int).Add(new(big.Int).SetBytes(rng.Bytes(31)), big1).FillBytes(make([]byte, 32)))
				copy(sig[32:64], new(big.Int).Add(new(big.Int).SetBytes(rng.Bytes(31)), big1).FillBytes(make([]byte, 32)))
				sig[64] = byte(rng.Intn(2))
			}
			var next *types.Transaction
			var err error
			if real && rng.Bool() {
				next, err = types.SignTx(cur, s2.signer(), priv)
			} else {
				next, err = cur.WithSignature(s2.signer(), sig)
			}
			if err != nil || next == nil {
				run.Count("life:resign-failed")
				break
			}
			ops = append(ops, fmt.Sprintf("w=%s,%s,%s,%d", s2.String(), hn(new(big.Int).SetBytes(sig[:32])), hn(new(big.Int).SetBytes(sig[32:64])), sig[64]))
			outs = append(outs, "w")
			old := s1
			cur, s1 = next, s2
			// the new object: always all three observations, under the new signer, the old one and a third one
			do("h", s2)
			do("z", s2)
			do("s", s2)
			if real && !(s2.kind == "E" && s2.chain.Sign() == 0) {
				addr := crypto.PubkeyToAddress(priv.PubKey())
				if got := outs[len(outs)-1]; got != "ok_"+hex.EncodeToString(addr[:]) {
					violate("stale-cache", "object lifetime: re-signed transaction not attributed to the signing key", in, "after "+strings.Join(ops, ";")+": Sender = "+got+" want "+hex.EncodeToString(addr[:]))
				}
			}
			do("s", old)
			do("s", sgn{"E", big.NewInt(int64(1 + rng.Intn(5)))})
			do("h", s2)
			run.Count("life:resign:" + map[bool]string{true: "real", false: "arbitrary-sig"}[real])
		}
		run.Case("life "+start.String()+" "+strings.Join(ops, ";")+" "+func() string {
			if len(recs) == 0 {
				return "-"
			}
			return strings.Join(recs, ",")
		}(), strings.Join(outs, "|"))
		run.Count("life")
	}
}

// protCases: isProtectedV / deriveChainId on boundary V values.
func protCases() {
	vs := []*big.Int{big0, big1, big.NewInt(26), big.NewInt(27), big.NewInt(28), big.NewInt(29), big.NewInt(34), big.NewInt(35), big.NewInt(36), big.NewInt(37), big.NewInt(38),
		big.NewInt(255), big.NewInt(256), big.NewInt(257), big.NewInt(283), big.NewInt(284)}
	for _, e := range []uint{63, 64, 65, 128, 255, 256} {
		for _, d := range []int64{-36, -35, -1, 0, 1, 27, 28, 35, 36} {
			v := new(big.Int).Add(pow2(e), big.NewInt(d))
			vs = append(vs, v)
		}
	}
	for _, v := range vs {
		x := raw{0, big0, 21000, nil, big0, nil, v, big1, big1}
		t, err := x.tx()
		if err != nil {
			continue
		}
		p := "0"
		if t.Protected() {
			p = "1"
		}
		run.Case("prot "+hn(v), p+" "+hn(t.ChainId()))
		run.Count("prot")
	}
}

// mkCases: MakeSigner on the built-in chain configurations around their fork heights.
func mkCases() {
	cfgs := []*params.ChainConfig{params.MainnetChainConfig, params.TestnetChainConfig, params.Testnet2ChainConfig, params.Testnet3ChainConfig, params.TestChainConfig,
		params.AllAquahashProtocolChanges, {ChainId: big.NewInt(9)}, {ChainId: big.NewInt(9), HomesteadBlock: big.NewInt(10)}, {ChainId: big.NewInt(9), HomesteadBlock: big.NewInt(10), EIP155Block: big.NewInt(5)}}
	opt := func(b *big.Int) string {
		if b == nil {
			return "-"
		}
		return hn(b)
	}
	for _, c := range cfgs {
		hs := []*big.Int{nil, big0, big1, big.NewInt(4), big.NewInt(5), big.NewInt(6), big.NewInt(9), big.NewInt(10), big.NewInt(11), big.NewInt(24), big.NewInt(25), big.NewInt(36049), big.NewInt(36050), big.NewInt(36051), pow2(70)}
		for _, b := range []*big.Int{c.HomesteadBlock, c.EIP155Block} {
			if b != nil {
				hs = append(hs, new(big.Int).Sub(b, big1), b, new(big.Int).Add(b, big1))
			}
		}
		for _, h := range hs {
			if h != nil && h.Sign() < 0 {
				continue
			}
			sg := types.MakeSigner(c, h)
			out := "?"
			switch x := sg.(type) {
			case types.FrontierSigner:
				out = "F"
			case types.HomesteadSigner:
				out = "H"
			case types.EIP155Signer:
				_ = x
				out = "E:" + hn(c.ChainId) // EIP155Signer.ChainId() truncates to uint64; Equal is the observable
				if !sg.Equal(types.NewEIP155Signer(c.ChainId)) {
					out = "E:?"
				}
			}
			run.Case("mk "+opt(c.HomesteadBlock)+" "+opt(c.EIP155Block)+" "+hn(c.ChainId)+" "+opt(h), out)
			run.Count("mk:" + out[:1])
		}
	}
}

// ---------------------------------------------------------------------------------------------------------------
// acceptance by the pool and by block processing

type testChain struct {
	statedb  *state.StateDB
	gasLimit uint64
	feed     *event.Feed
}

func (bc *testChain) CurrentBlock() *types.Block {
	return types.NewBlock(&types.Header{GasLimit: bc.gasLimit}, nil, nil, nil)
}
func (bc *testChain) GetBlock(common.Hash, uint64) *types.Block         { return bc.CurrentBlock() }
func (bc *testChain) StateAt(common.Hash) (*state.StateDB, error)       { return bc.statedb, nil }
func (bc *testChain) SubscribeChainHeadEvent(ch chan<- core.ChainHeadEvent) event.Subscription {
	return bc.feed.Subscribe(ch)
}

func acceptanceCases(rng *hx.Rng, n int) {
	cfg := params.TestChainConfig
	for i := 0; i < n; i++ {
		key := genKey(rng)
		priv := crypto.ToECDSAUnsafe(key)
		addr := crypto.PubkeyToAddress(priv.PubKey())
		db := aquadb.NewMemDatabase()
		statedb, _ := state.New(common.Hash{}, state.NewDatabase(db))
		statedb.AddBalance(addr, new(big.Int).Lsh(big1, 100))
		chain := &testChain{statedb, 10000000, new(event.Feed)}
		pcfg := core.DefaultTxPoolConfig
		pcfg.Journal = "" // no journal file
		pool := core.NewTxPool(pcfg, cfg, chain)
		own := sgn{"E", cfg.ChainId}
		to := common.BytesToAddress(rng.Bytes(20))
		mk := func(s sgn, nonce uint64) (*types.Transaction, raw) {
			t, err := types.SignTx(types.NewTransaction(nonce, to, big.NewInt(1000), 21000, big.NewInt(1), nil), s.signer(), priv)
			if err != nil {
				panic(err)
			}
			return t, rawOf(t)
		}
		header := &types.Header{Number: big.NewInt(100), GasLimit: 10000000, Time: big.NewInt(1000), Difficulty: big.NewInt(1), Coinbase: common.Address{7}}
		apply := func(t *types.Transaction) string {
			return hx.Safe(func() string {
				gp := new(core.GasPool).AddGas(header.GasLimit)
				var used uint64
				author := common.Address{7}
				_, _, err := core.ApplyTransaction(cfg, nil, &author, gp, statedb.Copy(), header, t, &used, vm.Config{})
				if err != nil {
					return "err " + strings.ReplaceAll(err.Error(), " ", "_")
				}
				return "ok"
			})
		}
		in := func(r raw) map[string]interface{} {
			return map[string]interface{}{"tx": r.String(), "rlp": hex.EncodeToString(r.encode()), "chainId": cfg.ChainId.String()}
		}
		// 1. valid
		t0, r0 := mk(own, 0)
		run.Current("accept valid")
		if a := apply(t0); a != "ok" {
			violate("acceptance", "core.ApplyTransaction valid", in(r0), a)
		}
		if err := pool.AddRemote(t0); err != nil {
			violate("acceptance", "TxPool.AddRemote valid", in(r0), err.Error())
		}
		// 2. signed for another chain
		tf, rf := mk(sgn{"E", new(big.Int).Add(cfg.ChainId, big1)}, 1)
		if a := apply(tf); a == "ok" {
			violate("replay", "core.ApplyTransaction foreign chain", in(rf), "transaction of another chain applied")
		}
		if err := pool.AddRemote(tf); err == nil {
			violate("replay", "TxPool.AddRemote foreign chain", in(rf), "transaction of another chain pooled")
		}
		// 3. the high-S twin of a valid transaction
		_, r1 := mk(own, 1)
		tw := r1.clone()
		tw.S.Sub(curveN, tw.S)
		flipRid(tw.V)
		tt, err := tw.tx()
		tw0 := r0.clone() // for block processing the twin of the nonce-0 transaction (the state's nonce is 0)
		tw0.S.Sub(curveN, tw0.S)
		flipRid(tw0.V)
		tt0, err0 := tw0.tx()
		if err == nil && err0 == nil {
			if a := apply(tt0); a == "ok" {
				violate("high-s-accepted", "core.ApplyTransaction under EIP155Signer: protected tx with S > N/2 accepted", in(tw0), "block processing applies the malleated twin (different hash, same sender)")
			}
			if err := pool.AddRemote(tt); err == nil {
				violate("high-s-accepted", "TxPool.AddRemote under EIP155Signer: protected tx with S > N/2 accepted", in(tw), "the pool accepts the malleated twin (different hash, same sender)")
			}
		}
		// 4. a Homestead-signed (unprotected) transaction is accepted by block processing under the EIP-155 signer, its
		//    high-S twin must be refused by both
		if tu, _ := mk(sgn{"H", nil}, 0); true {
			if a := apply(tu); a != "ok" {
				violate("acceptance", "core.ApplyTransaction unprotected valid", in(rawOf(tu)), a)
			}
		}
		_, rh := mk(sgn{"H", nil}, 1)
		th := rh.clone()
		th.S.Sub(curveN, th.S)
		th.V = big.NewInt(55 - th.V.Int64())
		_, rh0 := mk(sgn{"H", nil}, 0)
		th0 := rh0.clone()
		th0.S.Sub(curveN, th0.S)
		th0.V = big.NewInt(55 - th0.V.Int64())
		t40, err40 := th0.tx()
		if t4, err := th.tx(); err == nil && err40 == nil {
			if a := apply(t40); a == "ok" {
				violate("high-s-accepted", "core.ApplyTransaction unprotected tx: S > N/2 accepted", in(th), "malleated unprotected transaction applied")
			}
			if err := pool.AddRemote(t4); err == nil {
				violate("high-s-accepted", "TxPool.AddRemote unprotected tx: S > N/2 accepted", in(th), "malleated unprotected transaction pooled")
			}
		}
		pool.Stop()
		run.Count("acceptance")
	}
}

// ---------------------------------------------------------------------------------------------------------------
// ApplyTransaction acceptance across fork heights: SEQUENCES of calls on private chain configs whose HomesteadBlock is > 0.
// Property clause: "malleable (high-S) signatures are rejected" by Homestead-and-later rules, observed at ApplyTransaction
// acceptance, mechanism "MakeSigner selects by height".  Judgement per call (direct, replayable): the accept / reject verdict and
// the debited account equal what types.Sender(types.MakeSigner(config, height), tx) says on a fresh object for THAT height,
// whatever calls (other heights, other configs) came before; and — computed by the harness from the config alone — an unprotected
// high-S transaction at a height >= HomesteadBlock is never applied.  Each call is also a model case (`apply`).

type forkCfg struct {
	cfg     *params.ChainConfig
	key     []byte
	addr    common.Address
	statedb *state.StateDB
	last    map[string]*types.Transaction // last REJECTED object per tx kind (re-offered as the same object: sender cache inside)
}

func optBig(b *big.Int) string {
	if b == nil {
		return "-"
	}
	return hn(b)
}

func sgnOf(sg types.Signer, chain *big.Int) sgn {
	switch sg.(type) {
	case types.FrontierSigner:
		return sgn{"F", nil}
	case types.HomesteadSigner:
		return sgn{"H", nil}
	}
	return sgn{"E", chain}
}

type forkCall struct {
	c    int    // config index
	h    int64  // header.Number
	kind string // lowU | highU | lowP | highP | foreignP
}

var forkKinds = []string{"lowU", "highU", "lowP", "highP", "foreignP"}

func newForkCfg(rng *hx.Rng, hb, eb *big.Int, chain int64) *forkCfg {
	key := genKey(rng)
	priv := crypto.ToECDSAUnsafe(key)
	statedb, _ := state.New(common.Hash{}, state.NewDatabase(aquadb.NewMemDatabase()))
	addr := crypto.PubkeyToAddress(priv.PubKey())
	statedb.AddBalance(addr, new(big.Int).Lsh(big1, 100))
	// a PRIVATE config object (its own pointer): only the fields MakeSigner and the EVM rules read are set
	cfg := &params.ChainConfig{ChainId: big.NewInt(chain), HomesteadBlock: hb, EIP155Block: eb}
	return &forkCfg{cfg, key, addr, statedb, map[string]*types.Transaction{}}
}

// build the transaction of the given kind for the account's CURRENT nonce.
func (f *forkCfg) build(rng *hx.Rng, kind string) (*types.Transaction, raw) {
	priv := crypto.ToECDSAUnsafe(f.key)
	nonce := f.statedb.GetNonce(f.addr)
	to := common.BytesToAddress(rng.Bytes(20))
	var s sgn
	switch kind {
	case "lowU", "highU":
		s = sgn{"H", nil}
	case "lowP", "highP":
		s = sgn{"E", f.cfg.ChainId}
	default:
		s = sgn{"E", new(big.Int).Add(f.cfg.ChainId, big1)}
	}
	t, err := types.SignTx(types.NewTransaction(nonce, to, big.NewInt(int64(1+rng.Intn(1000))), 21000, big.NewInt(1), nil), s.signer(), priv)
	if err != nil {
		panic(err)
	}
	r := rawOf(t)
	if kind == "highU" || kind == "highP" {
		r.S.Sub(curveN, r.S)
		if kind == "highU" {
			r.V = big.NewInt(55 - r.V.Int64())
		} else {
			flipRid(r.V)
		}
		t2, err := r.tx()
		if err != nil {
			panic(err)
		}
		t = t2
	}
	return t, r
}

func forkSeqCases(rng *hx.Rng, n int) {
	seenCase := map[string]bool{}
	for sc := 0; sc < n; sc++ {
		h := int64(2 + rng.Intn(40))
		if rng.Intn(4) == 0 {
			h = int64(1000 + rng.Intn(100000))
		}
		far := h + 100000 // "EIP-155 later than every height used"
		// config A: HomesteadBlock = h > 0; EIP-155 status the same on both sides of h (never / from genesis / far later), or different
		var ebA *big.Int
		variant := sc % 7
		vname := ""
		switch variant {
		case 0, 1:
			ebA, vname = nil, "eip155:never"
		case 2:
			ebA, vname = big.NewInt(far), "eip155:later-than-all-heights"
		case 3:
			ebA, vname = big.NewInt(0), "eip155:from-genesis"
		case 4:
			ebA, vname = big.NewInt(h), "eip155:at-homestead"
		case 5:
			ebA, vname = big.NewInt(h+3), "eip155:shortly-after-homestead"
		case 6:
			ebA, vname = big.NewInt(h-1), "eip155:before-homestead"
		}
		run.Count("forkseq:cfg:" + vname)
		cfgs := []*forkCfg{newForkCfg(rng, big.NewInt(h), ebA, 1337)}
		// config B (interleaving): another chain with its own fork heights
		h2 := int64(1 + rng.Intn(int(h)+5))
		switch rng.Intn(4) {
		case 0:
			cfgs = append(cfgs, newForkCfg(rng, big.NewInt(0), nil, 1337))
		case 1:
			cfgs = append(cfgs, newForkCfg(rng, big.NewInt(h2), nil, 7))
		case 2:
			cfgs = append(cfgs, newForkCfg(rng, big.NewInt(h2), big.NewInt(h2+2), 1337))
		case 3:
			cfgs = append(cfgs, newForkCfg(rng, nil, nil, 1337))
		}
		// heights of interest for a config
		heights := func(f *forkCfg) []int64 {
			hs := []int64{0, 1}
			for _, b := range []*big.Int{f.cfg.HomesteadBlock, f.cfg.EIP155Block} {
				if b != nil && b.IsInt64() && b.Int64() < far {
					hs = append(hs, b.Int64()-1, b.Int64(), b.Int64()+1, b.Int64()+1+int64(rng.Intn(5000)))
				}
			}
			var out []int64
			for _, x := range hs {
				if x >= 0 {
					out = append(out, x)
				}
			}
			return out
		}
		below := func() int64 { return h - 1 - int64(rng.Intn(int(h))) } // 0 .. h-1
		above := func() int64 {
			switch rng.Intn(3) {
			case 0:
				return h
			case 1:
				return h + 1
			}
			return h + int64(rng.Intn(5000))
		}
		var calls []forkCall
		shape := (sc / 7) % 4
		switch shape {
		case 0: // in-order import: Frontier era first, then across the fork
			for i := 0; i <= rng.Intn(3); i++ {
				calls = append(calls, forkCall{0, below(), "lowU"})
			}
			calls = append(calls, forkCall{0, h, "highU"}, forkCall{0, h, "lowU"}, forkCall{0, h, "highU"}, forkCall{0, above(), "highU"},
				forkCall{0, above(), "lowU"}, forkCall{0, above(), "highP"}, forkCall{0, above(), "lowP"}, forkCall{0, above(), "highU"})
		case 1: // reverse: Homestead era first, then a Frontier-era block (side chain / tracing an old block), and back
			calls = append(calls, forkCall{0, above(), "lowU"}, forkCall{0, above(), "highU"}, forkCall{0, below(), "highU"}, forkCall{0, below(), "lowU"},
				forkCall{0, below(), "highU"}, forkCall{0, h, "highU"}, forkCall{0, above(), "lowU"}, forkCall{0, h - 1, "highU"}, forkCall{0, h, "highU"})
		case 2: // interleaved with the second config
			calls = append(calls, forkCall{0, below(), "lowU"}, forkCall{1, h2, "lowU"}, forkCall{0, h, "highU"}, forkCall{0, below(), "highU"},
				forkCall{1, h2 + 1, "highU"}, forkCall{0, above(), "highU"}, forkCall{1, 0, "highU"}, forkCall{0, below(), "lowU"}, forkCall{0, above(), "highU"},
				forkCall{1, h2 + 3, "lowP"}, forkCall{0, above(), "highU"})
		case 3: // random walk over both configs, all heights of interest, all tx kinds
			for i := 0; i < 10+rng.Intn(10); i++ {
				c := 0
				if rng.Intn(3) == 0 {
					c = 1
				}
				hs := heights(cfgs[c])
				k := forkKinds[rng.Intn(len(forkKinds))]
				if rng.Intn(2) == 0 {
					k = forkKinds[rng.Intn(2)]
				}
				calls = append(calls, forkCall{c, hs[rng.Intn(len(hs))], k})
			}
		}
		run.Count(fmt.Sprintf("forkseq:shape:%d", shape))

		var history []map[string]interface{}
		cfgIn := func() []map[string]interface{} {
			var out []map[string]interface{}
			for _, f := range cfgs {
				out = append(out, map[string]interface{}{"homesteadBlock": optBig(f.cfg.HomesteadBlock), "eip155Block": optBig(f.cfg.EIP155Block),
					"chainId": f.cfg.ChainId.String(), "key": hex.EncodeToString(f.key), "funded": hex.EncodeToString(f.addr[:])})
			}
			return out
		}
		for _, cl := range calls {
			if cl.h < 0 {
				cl.h = 0
			}
			f := cfgs[cl.c]
			num := big.NewInt(cl.h)
			// the object: newly built for the current nonce, or the very object a previous call rejected (its sender cache is warm)
			var t *types.Transaction
			var r raw
			if old := f.last[cl.kind]; old != nil && old.Nonce() == f.statedb.GetNonce(f.addr) && rng.Intn(2) == 0 {
				t, r = old, rawOf(old)
				run.Count("forkseq:same-object-reoffered")
			} else {
				t, r = f.build(rng, cl.kind)
			}
			// expectation for THIS height, from the signer API on a fresh object
			want := sgnOf(types.MakeSigner(f.cfg, num), f.cfg.ChainId)
			fresh, err := r.tx()
			if err != nil {
				panic(err)
			}
			exp := sender(want, fresh)
			// era by the harness' own reading of the config (independent of MakeSigner)
			homestead := f.cfg.HomesteadBlock != nil && f.cfg.HomesteadBlock.Cmp(num) <= 0
			eip155 := f.cfg.EIP155Block != nil && f.cfg.EIP155Block.Cmp(num) <= 0
			era := "F"
			if eip155 {
				era = "E"
			} else if homestead {
				era = "H"
			}
			header := &types.Header{Number: num, GasLimit: 10000000, Time: big.NewInt(1000 + cl.h), Difficulty: big.NewInt(1), Coinbase: common.Address{7}}
			nonce0 := f.statedb.GetNonce(f.addr)
			bal0 := f.statedb.GetBalance(f.addr)
			run.Current(fmt.Sprintf("forkseq apply cfg=%d h=%d %s", cl.c, cl.h, cl.kind))
			got := hx.Safe(func() string {
				gp := new(core.GasPool).AddGas(header.GasLimit)
				var used uint64
				author := common.Address{7}
				snap := f.statedb.Snapshot()
				_, _, err := core.ApplyTransaction(f.cfg, nil, &author, gp, f.statedb, header, t, &used, vm.Config{})
				if err != nil {
					f.statedb.RevertToSnapshot(snap)
					return "err " + errClass(err)
				}
				if f.statedb.GetNonce(f.addr) == nonce0+1 && f.statedb.GetBalance(f.addr).Cmp(bal0) < 0 {
					return "ok " + hex.EncodeToString(f.addr[:])
				}
				return "ok someone-else"
			})
			step := map[string]interface{}{"config": cl.c, "height": cl.h, "kind": cl.kind, "tx": r.String(), "rlp": hex.EncodeToString(r.encode()),
				"ApplyTransaction": got, "types.Sender(MakeSigner(config,height),tx)": exp}
			history = append(history, step)
			in := func() map[string]interface{} {
				return map[string]interface{}{"configs": cfgIn(), "calls": append([]map[string]interface{}{}, history...)}
			}
			first := len(history) == 1
			pos := "after-other-calls"
			if first {
				pos = "first-call"
			}
			if got != exp && !(strings.HasPrefix(got, "err") && strings.HasPrefix(exp, "err")) {
				g, e := strings.Fields(got)[0], strings.Fields(exp)[0]
				violate("fork-height-acceptance", fmt.Sprintf("core.ApplyTransaction %s in a %s-era block: %s, types.Sender(MakeSigner(config, height)) says %s", cl.kind, era, g, e), in(),
					fmt.Sprintf("call %d (%s) at height %d of config %d: ApplyTransaction -> %s, the signer for that height (%s) -> %s", len(history), pos, cl.h, cl.c, got, want.String(), exp))
			}
			if cl.kind == "highU" && (homestead || eip155) && strings.HasPrefix(got, "ok") {
				violate("high-s-accepted", "core.ApplyTransaction unprotected tx: S > N/2 accepted in a Homestead-or-later block ("+pos+")", in(),
					fmt.Sprintf("height %d >= HomesteadBlock %s: malleated unprotected transaction applied and debited (%s)", cl.h, optBig(f.cfg.HomesteadBlock), got))
			}
			if strings.HasPrefix(got, "ok") {
				delete(f.last, cl.kind)
			} else {
				f.last[cl.kind] = t
			}
			run.Count("forkseq:" + era + ":" + cl.kind + ":" + strings.Fields(got)[0])
			// model case: applySender at (config, height) — no history on the model side
			line := "apply " + optBig(f.cfg.HomesteadBlock) + " " + optBig(f.cfg.EIP155Block) + " " + hn(f.cfg.ChainId) + " " + hn(num) + " " + r.String() + " " +
				recoverOracle(fresh, r.R, r.S, sgn{"E", f.cfg.ChainId})
			run.Case(line, got)
			mk := "mk " + optBig(f.cfg.HomesteadBlock) + " " + optBig(f.cfg.EIP155Block) + " " + hn(f.cfg.ChainId) + " " + hn(num)
			if !seenCase[mk] {
				seenCase[mk] = true
				run.Case(mk, want.String())
			}
		}
		run.Count("forkseq:scenarios")
	}
}

func main() {
	run = hx.Start()
	log.Root().SetHandler(log.DiscardHandler())
	rng := hx.NewRng(run.Seed)
	run.Watch(120*time.Second, 3<<30, func(cur string) string { return "hang-or-oom " + cur })
	thorough := run.Thorough()

	protCases()
	mkCases()

	// signed transactions under every signer kind and the chain-id lattice
	sr := rng.Fork(1)
	var signers []sgn
	signers = append(signers, sgn{"F", nil}, sgn{"H", nil}, sgn{"E", big0})
	for _, c := range chainLattice() {
		signers = append(signers, sgn{"E", c})
	}
	rounds := 1
	if thorough {
		rounds = 10
	}
	var pool []*signedTx
	for round := 0; round < rounds; round++ {
		for _, s := range signers {
			st := signCase(sr, s, genUnsigned(sr), genKey(sr))
			if st != nil {
				pool = append(pool, st)
			}
		}
		for i := 0; i < 10; i++ {
			st := signCase(sr, sgn{"E", genChain(sr)}, genUnsigned(sr), genKey(sr))
			if st != nil {
				pool = append(pool, st)
			}
		}
	}
	mr := rng.Fork(2)
	for i, st := range pool {
		codecCases(st)
		jsonHashCases(mr, st, pool[(i+1)%len(pool)])
		mutationCases(mr, st, (thorough && i%2 == 0) || i%12 == 0)
		if i%3 == 0 || thorough {
			unjsonMutations(mr, st)
		}
		cacheCases(mr, st, st.r, "signed")
		// high-S twin with V of the 27/28 form: Frontier accepts it, Homestead must not although Frontier's answer is cached
		if st.s.kind != "E" {
			tw := st.r.clone()
			tw.S.Sub(curveN, tw.S)
			tw.V = big.NewInt(55 - tw.V.Int64())
			cacheCases(mr, st, tw, "unprotected-high-S")
		}
	}
	nl := 300
	if thorough {
		nl = 20000
	}
	lifeCases(rng.Fork(5), nl)
	latticeCases(rng.Fork(3), thorough)
	na := 4
	if thorough {
		na = 60
	}
	acceptanceCases(rng.Fork(4), na)
	nf := 56
	if thorough {
		nf = 1400
	}
	forkSeqCases(rng.Fork(6), nf)
	run.Finish()
}

package main

import (
	"fmt"
	"os"
	"strings"
	"time"

	"github.com/pborman/uuid"
	"gitlab.com/aquachain/aquachain/aqua/accounts"
	"gitlab.com/aquachain/aquachain/aqua/accounts/keystore"
	"gitlab.com/aquachain/aquachain/crypto"
)

func try(name string, js []byte, pw string) {
	defer func() {
		if e := recover(); e != nil {
			fmt.Println(name, "PANIC", e)
		}
	}()
	k, err := keystore.DecryptKey(js, pw)
	if err != nil {
		fmt.Println(name, "err", err)
		return
	}
	fmt.Printf("%s ok %x %x\n", name, k.PrivateKey.Serialize(), k.Address)
}

func main() {
	priv, err := crypto.HexToBtcec("00000000000000aabbccddeeff00112233445566778899aabbccddeeff001122")
	fmt.Println(err)
	k := &keystore.Key{Id: uuid.NewRandom(), Address: crypto.PubkeyToAddress(priv.PubKey()), PrivateKey: priv}
	t0 := time.Now()
	js, err := keystore.EncryptKey(k, "pw", keystore.LightScryptN, keystore.LightScryptP)
	fmt.Println(time.Since(t0), err, string(js))
	t0 = time.Now()
	js, err = keystore.EncryptKey(k, "pw", 2, 1)
	fmt.Println(time.Since(t0), err, string(js))
	s := string(js)
	try("orig", js, "pw")
	try("wrongpw", js, "pW")
	try("p0", []byte(strings.Replace(s, `"p":1`, `"p":0`, 1)), "pw")
	try("r0", []byte(strings.Replace(s, `"r":8`, `"r":0`, 1)), "pw")
	try("dklen-2", []byte(strings.Replace(s, `"dklen":32`, `"dklen":-2`, 1)), "pw")
	try("dklen12", []byte(strings.Replace(s, `"dklen":32`, `"dklen":12`, 1)), "pw")
	try("dklen62", []byte(strings.Replace(s, `"dklen":32`, `"dklen":62`, 1)), "pw")
	try("dklen3e", []byte(strings.Replace(s, `"dklen":32`, `"dklen":3e`, 1)), "pw")
	try("dklen3.", []byte(strings.Replace(s, `"dklen":32`, `"dklen":3.2`, 1)), "pw")
	try("n4", []byte(strings.Replace(s, `"n":2`, `"n":4`, 1)), "pw")
	i := strings.Index(s, `"iv":"`) + 6
	b := []byte(s)
	if b[i] == '0' { b[i] = '1' } else { b[i] = '0' }
	try("iv", b, "pw")
	try("saltkey", []byte(strings.Replace(s, `"salt"`, `"sal"`, 1)), "pw")
	try("versionstr", []byte(strings.Replace(s, `"version":3`, `"version":"1"`, 1)), "pw")
	try("version4", []byte(strings.Replace(s, `"version":3`, `"version":4`, 1)), "pw")
	try("ivnull", []byte(strings.Replace(s, `"iv":"`+s[i:i+32]+`"`, `"iv":null`, 1)), "pw")
	// keystore level import
	dir, _ := os.MkdirTemp("/verif/.work/c20probe", "ks")
	ks := keystore.NewKeyStore(dir, 2, 1)
	a, err := ks.Import(b, "pw", "pw2")
	fmt.Printf("Import iv-tampered: %x %v (orig %x)\n", a.Address, err, k.Address)
	// keystore level unlock of tampered file
	dir2, _ := os.MkdirTemp("/verif/.work/c20probe", "ks")
	os.WriteFile(dir2+"/UTC--x--"+fmt.Sprintf("%x", k.Address[:]), b, 0600)
	ks2 := keystore.NewKeyStore(dir2, 2, 1)
	fmt.Println(ks2.Accounts())
	err = ks2.Unlock(accounts.Account{Address: k.Address}, "pw")
	fmt.Println("unlock tampered:", err)
	os.RemoveAll(dir); os.RemoveAll(dir2)
}

package main

import (
	"fmt"
	"time"

	"gitlab.com/aquachain/aquachain/core"
	"verifharness/chainx"
	"verifharness/hx"
)

func main() {
	chainx.Quiet()
	for _, shifted := range []bool{false, true} {
		r := hx.NewRng(3)
		t0 := time.Now()
		t := chainx.NewRichTree(chainx.RichOpts{Shifted: shifted, EmptyPct: 15, UnclePct: 50})
		t.GrowRich(r, 24, 20)
		fmt.Println("built", len(t.Nodes), "depth", t.Depth(), time.Since(t0))
		kinds := map[string]int{}
		nu := 0
		for id, ks := range t.Kinds {
			for _, k := range ks {
				kinds[k]++
			}
			nu += len(t.Uncles[id])
		}
		fmt.Println(kinds, "uncles", nu)
		fails := 0
		for _, n := range t.Nodes {
			for _, rc := range n.Receipts {
				if rc.Status == 0 {
					fails++
				}
			}
		}
		fmt.Println("failed receipts", fails)
		t0 = time.Now()
		bc, _ := t.NewChain(&core.CacheConfig{Disabled: true})
		for _, b := range t.Batches(r, t.ParentClosedOrder(r)) {
			i, err := bc.InsertChain(t.Blocks(b))
			if err != nil {
				fmt.Println("ERR", b, i, err)
			}
		}
		fmt.Println("imported", time.Since(t0), bc.CurrentBlock().NumberU64())
	}
}

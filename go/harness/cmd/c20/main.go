// c20: correspondence + direct-judgement harness for the keystore (property C20).
// Drives the REAL keystore.EncryptKey / DecryptKey and KeyStore.NewAccount / ImportECDSA / Unlock / Export / Import /
// Update / SignHash in-process.  For every DecryptKey / Unlock call it also emits a case for the Lean model: the key file
// as encoding/json delivers it (overlay accessor VerifAbstract) plus the VALUES of the primitives the model treats as
// parameters (KDF result, AES keystream / CBC output, scalar->address), so the model's control flow is compared without
// re-implementing any cryptography.
package main

import (
	"crypto/aes"
	"crypto/cipher"
	"crypto/sha256"
	"encoding/hex"
	"encoding/json"
	"fmt"
	"math/big"
	"os"
	"path/filepath"
	"regexp"
	"sort"
	"strconv"
	"strings"
	"sync"
	"time"

	"gitlab.com/aquachain/aquachain/aqua/accounts"
	"gitlab.com/aquachain/aquachain/aqua/accounts/keystore"
	"gitlab.com/aquachain/aquachain/common"
	"gitlab.com/aquachain/aquachain/common/log"
	"gitlab.com/aquachain/aquachain/core/types"
	"gitlab.com/aquachain/aquachain/crypto"
	"golang.org/x/crypto/pbkdf2"
	"golang.org/x/crypto/scrypt"
	"verifharness/hx"
)

var run *hx.Run
var dirSeq int
var violSeen = map[string]int{}

// violate records at most 3 instances per (kind, signature) so that the bounded violation list stays diverse.
func violate(kind, sig string, input interface{}, detail string) {
	violSeen[kind+"|"+sig]++
	if violSeen[kind+"|"+sig] <= 3 {
		run.Violate(kind, sig, input, detail)
	} else {
		run.Count("violation:" + kind)
	}
}

// ---------------------------------------------------------------------------------------------------------------
// helpers

func hs(s string) string { return hx.Hex([]byte(s)) }

func b2i(b bool) string {
	if b {
		return "1"
	}
	return "0"
}

func errClass(err error) string {
	if err == nil {
		return "nil"
	}
	if err == keystore.ErrDecrypt {
		return "decrypt"
	}
	if err == keystore.ErrLocked {
		return "locked"
	}
	if err == keystore.ErrNoMatch {
		return "nomatch"
	}
	switch err.(type) {
	case *json.SyntaxError, *json.UnmarshalTypeError, *json.InvalidUnmarshalError:
		return "json"
	case hex.InvalidByteError:
		return "hex"
	}
	if err == hex.ErrLength {
		return "hex"
	}
	m := err.Error()
	switch {
	case strings.HasPrefix(m, "Version not supported"):
		return "version"
	case strings.HasPrefix(m, "Cipher not supported"):
		return "cipher"
	case strings.HasPrefix(m, "Unsupported PBKDF2 PRF"):
		return "prf"
	case strings.HasPrefix(m, "Unsupported KDF"):
		return "unsupportedKdf"
	case strings.HasPrefix(m, "scrypt:"):
		return "kdf"
	case strings.HasPrefix(m, "encrypted key content mismatch"):
		return "mismatch"
	case strings.HasPrefix(m, "invalid KDF params") || strings.HasPrefix(m, "invalid scrypt params"):
		return "kdfParams"
	case strings.HasPrefix(m, "invalid IV"):
		return "ivLength"
	case strings.HasPrefix(m, "key file corrupted"):
		return "corrupted"
	case strings.Contains(m, "unexpected end of JSON") || strings.HasPrefix(m, "json:") || strings.HasPrefix(m, "invalid character"):
		return "json"
	}
	// unknown error text: keep a short, stable prefix (no addresses / values in histogram keys)
	if i := strings.IndexAny(m, ":0123456789"); i >= 0 {
		m = m[:i]
	}
	if len(m) > 40 {
		m = m[:40]
	}
	return "other:" + strings.ReplaceAll(strings.TrimSpace(m), " ", "_")
}

type scAddr struct {
	scalar []byte
	addr   common.Address
}

var addrCache = map[string]scAddr{}

// addrOfScalar: what a key blob means, computed independently of crypto.ToECDSAUnsafe's handling of odd lengths: the first 32
// bytes read big-endian (i.e. padded with zeros on the LEFT), mod N; the address is derived from the full 32-byte scalar.
func addrOfScalar(b []byte) (scalar []byte, addr common.Address) {
	if c, ok := addrCache[string(b)]; ok {
		return c.scalar, c.addr
	}
	in := b
	if len(in) > 32 {
		in = in[:32]
	}
	v := new(big.Int).SetBytes(in)
	v.Mod(v, curveN)
	sc := v.FillBytes(make([]byte, 32))
	k := crypto.ToECDSAUnsafe(sc)
	c := scAddr{sc, crypto.PubkeyToAddress(k.PubKey())}
	if len(addrCache) < 100000 {
		addrCache[string(b)] = c
	}
	return c.scalar, c.addr
}

// canon drops the panic message (kept in the violation record) so that the model's "panic" compares equal.
func canon(out string) string {
	if strings.HasPrefix(out, "panic") {
		return "panic"
	}
	return out
}

// decryptKey: the real DecryptKey, outcome as a canonical string.
func decryptKey(js []byte, pw string) string {
	return hx.Safe(func() string {
		k, err := keystore.DecryptKey(js, pw)
		if err != nil {
			return "err " + errClass(err)
		}
		return "ok " + hex.EncodeToString(k.PrivateKey.Serialize()) + " " + hex.EncodeToString(k.Address[:])
	})
}

func newDir() string {
	dirSeq++
	d := filepath.Join(run.OutDir, "ks", strconv.Itoa(dirSeq))
	if err := os.MkdirAll(d, 0o700); err != nil {
		panic(err)
	}
	return d
}

var signHash = crypto.Keccak256([]byte("c20 signing probe"))

// signer address of a signature made with the unlocked account
func signerAfterUnlock(ks *keystore.KeyStore, a accounts.Account) (string, error) {
	sig, err := ks.SignHash(a, signHash)
	if err != nil {
		return "", err
	}
	pub, err := crypto.SigToPub(signHash, sig)
	if err != nil {
		return "", err
	}
	ad := crypto.PubkeyToAddress(pub)
	return hex.EncodeToString(ad[:]), nil
}

// ---------------------------------------------------------------------------------------------------------------
// the abstract file + oracle values for the model

type num struct {
	ok bool
	v  int
}

func asNum(x interface{}) num {
	if f, ok := x.(float64); ok {
		return num{true, int(f)} // the same conversion ensureInt performs
	}
	return num{}
}

func absFields(a keystore.VerifKeyFile) string {
	vt := "N"
	if a.VerTopIsStr {
		vt = "S" + hs(a.VerTop)
	}
	keys := make([]string, 0, len(a.KDFParams))
	for k := range a.KDFParams {
		keys = append(keys, k)
	}
	sort.Strings(keys)
	kp := make([]string, 0, len(keys))
	for _, k := range keys {
		v := "O"
		switch x := a.KDFParams[k].(type) {
		case string:
			v = "S" + hs(x)
		case float64:
			v = "N" + strconv.Itoa(int(x))
		}
		kp = append(kp, hs(k)+":"+v)
	}
	kps := "-"
	if len(kp) > 0 {
		kps = strings.Join(kp, ",")
	}
	return strings.Join([]string{b2i(a.JSONOk), vt, b2i(a.V1Ok), b2i(a.V3Ok), strconv.Itoa(a.Version3), hs(a.Cipher), hs(a.CipherText),
		hs(a.IV), hs(a.KDF), hs(a.MAC), kps, hs(a.Address)}, " ")
}

type kdfOut struct {
	kind string // ok | err | panic | none
	buf  []byte // up to capacity
	n    int
}

func callKDF(f func() ([]byte, error)) (o kdfOut) {
	defer func() {
		if e := recover(); e != nil {
			o = kdfOut{kind: "panic"}
		}
	}()
	dk, err := f()
	if err != nil {
		return kdfOut{kind: "err"}
	}
	return kdfOut{kind: "ok", buf: dk[:cap(dk)], n: len(dk)}
}

// oracles computes the primitive VALUES the model needs for this (file, passphrase): the KDF result for the request the
// file describes, the AES-CTR keystream / raw AES-CBC output for the derived key and the file's IV, and the addresses of
// the candidate plaintexts.  Everything is computed leniently (if a step is not applicable the oracle is "-"); the model
// decides by itself which of them it needs.
func oracles(a keystore.VerifKeyFile, pw string, extra [][]byte) string {
	kdfO, ksO, cbcO := "-", "-", "-"
	cands := append([][]byte{}, extra...)
	var ko kdfOut
	ko.kind = "none"
	if salts, ok := a.KDFParams["salt"].(string); ok {
		if salt, err := hex.DecodeString(salts); err == nil {
			if dkl := asNum(a.KDFParams["dklen"]); dkl.ok {
				switch a.KDF {
				case "scrypt":
					n, r, p := asNum(a.KDFParams["n"]), asNum(a.KDFParams["r"]), asNum(a.KDFParams["p"])
					if n.ok && r.ok && p.ok {
						ko = callKDF(func() ([]byte, error) { return scrypt.Key([]byte(pw), salt, n.v, r.v, p.v, dkl.v) })
						kdfO = fmt.Sprintf("s:%s:%s:%d:%d:%d:%d=", hs(pw), hx.Hex(salt), n.v, r.v, p.v, dkl.v)
					}
				case "pbkdf2":
					c := asNum(a.KDFParams["c"])
					if prf, ok := a.KDFParams["prf"].(string); ok && c.ok && prf == "hmac-sha256" {
						ko = callKDF(func() ([]byte, error) { return pbkdf2.Key([]byte(pw), salt, c.v, dkl.v, sha256.New), nil })
						kdfO = fmt.Sprintf("p:%s:%s:%d:%d=", hs(pw), hx.Hex(salt), c.v, dkl.v)
					}
				}
			}
		}
	}
	switch ko.kind {
	case "ok":
		kdfO += "ok:" + hx.Hex(ko.buf) + ":" + strconv.Itoa(ko.n)
	case "err", "panic":
		kdfO += ko.kind
	}
	iv, errIv := hex.DecodeString(a.IV)
	ct, errCt := hex.DecodeString(a.CipherText)
	mac, errMac := hex.DecodeString(a.MAC)
	// the AES / address values are only needed when the MAC comparison lets the call proceed (if the model disagrees about
	// that, it misses an oracle value and the case is reported as a disagreement)
	if ko.kind == "ok" && len(ko.buf) >= 32 && errIv == nil && errCt == nil && errMac == nil && len(iv) == 16 &&
		string(crypto.Keccak256(ko.buf[16:32], ct)) == string(mac) {
		key := ko.buf[:16]
		if blk, err := aes.NewCipher(key); err == nil {
			zero := make([]byte, len(ct))
			stream := make([]byte, len(ct))
			cipher.NewCTR(blk, iv).XORKeyStream(stream, zero)
			ksO = hx.Hex(key) + ":" + hx.Hex(iv) + ":" + hx.Hex(stream)
			pt := make([]byte, len(ct))
			for i := range ct {
				pt[i] = ct[i] ^ stream[i]
			}
			cands = append(cands, pt)
		}
		if len(ct)%16 == 0 && len(ct) > 0 {
			key1 := crypto.Keccak256(ko.buf[:16])[:16]
			if blk, err := aes.NewCipher(key1); err == nil {
				out := make([]byte, len(ct))
				cipher.NewCBCDecrypter(blk, iv).CryptBlocks(out, ct)
				cbcO = hx.Hex(key1) + ":" + hx.Hex(iv) + ":" + hx.Hex(ct) + ":" + hx.Hex(out)
				// every possible unpadding (the model decides which, if any, is valid)
				for n := 1; n <= 16 && n <= len(out); n++ {
					cands = append(cands, out[:len(out)-n])
				}
			}
		}
	}
	seen := map[string]bool{}
	var ads []string
	for _, c := range cands {
		sc, ad := addrOfScalar(c)
		k := hex.EncodeToString(sc)
		if !seen[k] {
			seen[k] = true
			ads = append(ads, k+":"+hex.EncodeToString(ad[:]))
		}
	}
	adO := "-"
	if len(ads) > 0 {
		adO = strings.Join(ads, ",")
	}
	return kdfO + " " + ksO + " " + cbcO + " " + adO
}

// expectation of the property for one call
type expect struct {
	kind string // R: must return the original key; W: wrong passphrase, must fail with an error; T: tampered, error or original;
	// N: a file WITHOUT an address field (never written by this keystore): outside the property, only "no crash" is judged
	key  []byte
	addr common.Address
}

func (e expect) String() string {
	if e.kind == "W" || e.kind == "N" {
		return e.kind
	}
	return e.kind + ":" + hex.EncodeToString(e.key) + ":" + hex.EncodeToString(e.addr[:])
}

type origin struct {
	api    string // bare DecryptKey | KeyStore.Unlock | KeyStore.Import | ...
	format string
	field  string // altered field ("" = none)
	what   string // description of the alteration for panic signatures
}

var fieldName = map[string]string{"iv": "IV", "mac": "MAC"}

func disp(f string) string {
	if d, ok := fieldName[f]; ok {
		return d
	}
	return f
}

// judge: direct Spec judgement of what the real code did (out: "ok <key> <addr>" | "ok <addr>" | "err <class>" | "panic ...").
func judge(o origin, e expect, out string, input map[string]interface{}) {
	input["api"], input["format"], input["observed"] = o.api, o.format, out
	origKey, origAddr := hex.EncodeToString(e.key), hex.EncodeToString(e.addr[:])
	isOrig := func() bool {
		f := strings.Fields(out)
		if len(f) == 3 {
			return f[1] == origKey && f[2] == origAddr
		}
		return len(f) == 2 && f[1] == origAddr
	}
	switch {
	case strings.HasPrefix(out, "panic"):
		sig := o.api + " panic"
		if o.what != "" {
			sig += ", " + o.what
		}
		violate("panic", sig, input, "the call panicked instead of returning an error: "+out)
	case e.kind == "R":
		if !strings.HasPrefix(out, "ok") || !isOrig() {
			violate("roundtrip", o.api+" "+o.format, input, "stored key not recovered with its passphrase: "+out+" want "+origKey+" "+origAddr)
		}
	case e.kind == "W":
		if !strings.HasPrefix(out, "err") {
			violate("wrong-pass-accepted", o.api+" "+o.format, input, "another passphrase did not fail with an error: "+out)
		}
	case e.kind == "T":
		if strings.HasPrefix(out, "ok") && !isOrig() {
			violate("different-key", o.api+", "+disp(o.field)+" field altered", input,
				"tampered key file yields a different key/address without error: "+out+" (original "+origKey+" "+origAddr+"), format "+o.format)
		}
	}
	cls := out
	if f := strings.Fields(out); len(f) >= 2 && f[0] == "err" {
		cls = "err:" + f[1]
	} else if len(f) >= 1 {
		cls = f[0]
		if f[0] == "ok" && (e.kind == "T" || e.kind == "N") {
			if isOrig() {
				cls = "ok-original"
			} else {
				cls = "ok-OTHER-KEY"
			}
		}
	}
	run.Count("out:" + o.api + ":" + e.kind + ":" + cls)
}

// dkCase: bare DecryptKey on (js, pw): direct judgement + model case.
func dkCase(o origin, e expect, js []byte, pw string) string {
	run.Current("dk " + o.format + " " + o.field + " " + o.what)
	out := decryptKey(js, pw)
	judge(o, e, out, map[string]interface{}{"keyjson": string(js), "passphrase": pw})
	a := keystore.VerifAbstract(js)
	run.Case("dk "+e.String()+" "+absFields(a)+" "+hs(pw)+" "+oracles(a, pw, [][]byte{e.key}), canon(out))
	return out
}

// gkCase: the tampered file placed in a fresh key directory, opened through KeyStore.Unlock, then a signature is made
// and its signer recovered.  Model: keyStorePassphrase.GetKey for the account address the real cache reports.
func gkCase(o origin, e expect, js []byte, pw string) {
	run.Current("gk " + o.format + " " + o.field + " " + o.what)
	dir := newDir()
	defer os.RemoveAll(dir)
	fn := filepath.Join(dir, "UTC--2026-01-01T00-00-00.000000000Z--"+hex.EncodeToString(e.addr[:]))
	if err := os.WriteFile(fn, js, 0o600); err != nil {
		panic(err)
	}
	ks := keystore.NewKeyStore(dir, 2, 1)
	accs := ks.Accounts()
	if len(accs) == 0 {
		run.Count("out:KeyStore.Unlock:" + e.kind + ":no-account-listed")
		return
	}
	acc := accs[0]
	out := hx.Safe(func() string {
		if err := ks.Unlock(acc, pw); err != nil {
			return "err " + errClass(err)
		}
		s, err := signerAfterUnlock(ks, acc)
		if err != nil {
			return "err sign:" + errClass(err)
		}
		return "ok " + s
	})
	judge(o, e, out, map[string]interface{}{"keyjson": string(js), "passphrase": pw, "account": hex.EncodeToString(acc.Address[:])})
	if strings.HasPrefix(out, "ok") && out != "ok "+hex.EncodeToString(acc.Address[:]) {
		violate("signer-mismatch", o.api, map[string]interface{}{"keyjson": string(js), "passphrase": pw},
			"signature made after Unlock is not by the unlocked account: "+out+" account "+hex.EncodeToString(acc.Address[:]))
	}
	a := keystore.VerifAbstract(js)
	run.Case("gk "+e.String()+" "+hex.EncodeToString(acc.Address[:])+" "+absFields(a)+" "+hs(pw)+" "+oracles(a, pw, [][]byte{e.key}), canon(out))
}

// importCase: KeyStore.Import of a (tampered) key JSON into an empty key directory.
func importCase(o origin, e expect, js []byte, pw string) {
	run.Current("import " + o.format + " " + o.field + " " + o.what)
	dir := newDir()
	defer os.RemoveAll(dir)
	ks := keystore.NewKeyStore(dir, 2, 1)
	out := hx.Safe(func() string {
		acc, err := ks.Import(js, pw, "new passphrase")
		if err != nil {
			return "err " + errClass(err)
		}
		return "ok " + hex.EncodeToString(acc.Address[:])
	})
	judge(o, e, out, map[string]interface{}{"keyjson": string(js), "passphrase": pw})
	a := keystore.VerifAbstract(js)
	run.Case("im "+e.String()+" "+absFields(a)+" "+hs(pw)+" "+oracles(a, pw, [][]byte{e.key}), canon(out))
	n := len(ks.Accounts())
	if strings.HasPrefix(out, "err") && n != 0 {
		violate("flow", "Import failed but stored an account", map[string]interface{}{"keyjson": string(js), "passphrase": pw}, out)
	}
}

// ---------------------------------------------------------------------------------------------------------------
// generators

var curveN, _ = new(big.Int).SetString("fffffffffffffffffffffffffffffffebaaedce6af48a03bbfd25e8cd0364141", 16)

func genScalar(rng *hx.Rng, zeros int) []byte {
	for {
		b := rng.Bytes(32)
		for i := 0; i < zeros; i++ {
			b[i] = 0
		}
		if zeros < 32 && b[zeros] == 0 {
			b[zeros] = 1 + byte(rng.Intn(255))
		}
		v := new(big.Int).SetBytes(b)
		if v.Sign() > 0 && v.Cmp(curveN) < 0 {
			return b
		}
	}
}

var passAlphabet = []rune("abcdefghijklmnopqrstuvwxyzABCDEFGHIJKLMNOPQRSTUVWXYZ0123456789 !\"#$%&'()*+,-./:;<=>?@[\\]^_`{|}~")
var passExotic = []rune("äöüßéñçøжяλπ密码鍵パスワード🔑🙂́ \t\n")

func genPass(rng *hx.Rng, kind int) string {
	switch kind % 6 {
	case 0:
		return ""
	case 1:
		return string(passAlphabet[rng.Intn(len(passAlphabet))])
	case 2: // long (> 64 bytes: HMAC hashes the key first)
		n := 65 + rng.Intn(80)
		r := make([]rune, n)
		for i := range r {
			r[i] = passAlphabet[rng.Intn(len(passAlphabet))]
		}
		return string(r)
	case 3: // non-ASCII
		n := 1 + rng.Intn(12)
		r := make([]rune, n)
		for i := range r {
			if rng.Intn(3) == 0 {
				r[i] = passAlphabet[rng.Intn(len(passAlphabet))]
			} else {
				r[i] = passExotic[rng.Intn(len(passExotic))]
			}
		}
		return string(r)
	case 4: // raw bytes, not valid UTF-8 (no NUL: HMAC zero-pads its key, see notes)
		b := rng.Bytes(1 + rng.Intn(20))
		for i := range b {
			if b[i] == 0 {
				b[i] = 0x80
			}
		}
		return string(b)
	default:
		n := 4 + rng.Intn(16)
		r := make([]rune, n)
		for i := range r {
			r[i] = passAlphabet[rng.Intn(len(passAlphabet))]
		}
		return string(r)
	}
}

// nearMiss: passphrases differing from pw in one character (substitution, deletion, insertion, case flip), plus the
// empty passphrase and a doubled one.  Never equal to pw; never pw extended by NUL bytes (HMAC zero-padding, see notes).
func nearMiss(rng *hx.Rng, pw string, all bool) []string {
	r := []rune(pw)
	set := map[string]bool{}
	add := func(s string) {
		if s != pw && strings.TrimRight(s, "\x00") != strings.TrimRight(pw, "\x00") {
			set[s] = true
		}
	}
	pos := []int{}
	for i := range r {
		pos = append(pos, i)
	}
	if !all && len(pos) > 6 {
		p2 := []int{0, len(r) - 1, len(r) / 2}
		for len(p2) < 6 {
			p2 = append(p2, rng.Intn(len(r)))
		}
		pos = p2
	}
	for _, i := range pos {
		c := append([]rune{}, r...)
		c[i] = passAlphabet[rng.Intn(len(passAlphabet))]
		add(string(c))
		c = append([]rune{}, r...)
		c[i] = r[i] ^ 0x20 // case flip for ASCII letters, another character otherwise
		if c[i] != 0 {
			add(string(c))
		}
		c = append([]rune{}, r...)
		c[i] = r[i] + 1
		add(string(c))
		add(string(append(append([]rune{}, r[:i]...), r[i+1:]...)))                                                       // deletion
		add(string(append(append(append([]rune{}, r[:i]...), passAlphabet[rng.Intn(len(passAlphabet))]), r[i:]...))) // insertion
	}
	add("")
	add(pw + " ")
	add(" " + pw)
	add(pw + pw)
	add(pw + "a")
	add(strings.ToUpper(pw))
	add(strings.ToLower(pw))
	// composed vs decomposed forms are different byte strings
	add(strings.ReplaceAll(pw, "é", "é"))
	add(strings.ReplaceAll(pw, "ä", "ä"))
	out := make([]string, 0, len(set))
	for s := range set {
		out = append(out, s)
	}
	sort.Strings(out)
	return out
}

type base struct {
	format string
	js     []byte
	pw     string
	key    []byte
	addr   common.Address
}

func mkKey(rng *hx.Rng, scalar []byte) *keystore.Key {
	priv := crypto.ToECDSAUnsafe(scalar)
	return &keystore.Key{Id: rng.Bytes(16), Address: crypto.PubkeyToAddress(priv.PubKey()), PrivateKey: priv}
}

func uuidStr(b []byte) string {
	return fmt.Sprintf("%x-%x-%x-%x-%x", b[0:4], b[4:6], b[6:8], b[8:10], b[10:16])
}

func ctrXor(key, in, iv []byte) []byte {
	blk, err := aes.NewCipher(key)
	if err != nil {
		panic(err)
	}
	out := make([]byte, len(in))
	cipher.NewCTR(blk, iv).XORKeyStream(out, in)
	return out
}

type cpJSON struct {
	IV string `json:"iv"`
}
type cryptoJSON struct {
	Cipher       string                 `json:"cipher"`
	CipherText   string                 `json:"ciphertext"`
	CipherParams cpJSON                 `json:"cipherparams"`
	KDF          string                 `json:"kdf"`
	KDFParams    map[string]interface{} `json:"kdfparams"`
	MAC          string                 `json:"mac"`
}

// derive: the KDF of a hand-built file (formats EncryptKey does not write but DecryptKey reads).
func derive(rng *hx.Rng, kdf string, pw string) ([]byte, map[string]interface{}) {
	salt := rng.Bytes(32)
	if kdf == "pbkdf2" {
		c := []int{1, 2, 16, 262}[rng.Intn(4)]
		dk := pbkdf2.Key([]byte(pw), salt, c, 32, sha256.New)
		return dk, map[string]interface{}{"c": c, "dklen": 32, "prf": "hmac-sha256", "salt": hex.EncodeToString(salt)}
	}
	n, p := 2<<uint(rng.Intn(3)), 1+rng.Intn(2)
	dk, err := scrypt.Key([]byte(pw), salt, n, 8, p, 32)
	if err != nil {
		panic(err)
	}
	return dk, map[string]interface{}{"n": n, "r": 8, "p": p, "dklen": 32, "salt": hex.EncodeToString(salt)}
}

func buildV3(rng *hx.Rng, kdf string, scalar []byte, pw string) []byte {
	_, addr := addrOfScalar(scalar)
	return buildV3pt(rng, kdf, scalar, addr, pw)
}

// buildV3pt: a v3 file whose plaintext is `pt` (possibly shorter than 32 bytes: a key written with its leading zeros stripped).
func buildV3pt(rng *hx.Rng, kdf string, pt []byte, addr common.Address, pw string) []byte {
	dk, kp := derive(rng, kdf, pw)
	iv := rng.Bytes(16)
	ct := ctrXor(dk[:16], pt, iv)
	mac := crypto.Keccak256(dk[16:32], ct)
	js, err := json.Marshal(struct {
		Address string     `json:"address"`
		Crypto  cryptoJSON `json:"crypto"`
		Id      string     `json:"id"`
		Version int        `json:"version"`
	}{hex.EncodeToString(addr[:]), cryptoJSON{"aes-128-ctr", hex.EncodeToString(ct), cpJSON{hex.EncodeToString(iv)}, kdf, kp, hex.EncodeToString(mac)},
		uuidStr(rng.Bytes(16)), 3})
	if err != nil {
		panic(err)
	}
	return js
}

func buildV1(rng *hx.Rng, kdf string, scalar []byte, pw string) []byte {
	_, addr := addrOfScalar(scalar)
	return buildV1pt(rng, kdf, scalar, addr, pw)
}

func buildV1pt(rng *hx.Rng, kdf string, pt []byte, addr common.Address, pw string) []byte {
	dk, kp := derive(rng, kdf, pw)
	iv := rng.Bytes(16)
	npad := 16 - len(pt)%16 // PKCS#7
	padded := append([]byte{}, pt...)
	for i := 0; i < npad; i++ {
		padded = append(padded, byte(npad))
	}
	blk, err := aes.NewCipher(crypto.Keccak256(dk[:16])[:16])
	if err != nil {
		panic(err)
	}
	ct := make([]byte, len(padded))
	cipher.NewCBCEncrypter(blk, iv).CryptBlocks(ct, padded)
	mac := crypto.Keccak256(dk[16:32], ct)
	js, err := json.Marshal(struct {
		Address string     `json:"address"`
		Crypto  cryptoJSON `json:"crypto"`
		Id      string     `json:"id"`
		Version string     `json:"version"`
	}{hex.EncodeToString(addr[:]), cryptoJSON{"aes-128-cbc", hex.EncodeToString(ct), cpJSON{hex.EncodeToString(iv)}, kdf, kp, hex.EncodeToString(mac)},
		uuidStr(rng.Bytes(16)), "1"})
	if err != nil {
		panic(err)
	}
	return js
}

func mkBase(rng *hx.Rng, format string, zeros, passKind, n, p int) base {
	scalar := genScalar(rng, zeros)
	pw := genPass(rng, passKind)
	_, addr := addrOfScalar(scalar)
	var js []byte
	switch format {
	case "v3-scrypt":
		var err error
		js, err = keystore.EncryptKey(mkKey(rng, scalar), pw, n, p)
		if err != nil {
			panic(err)
		}
	case "v3-pbkdf2":
		js = buildV3(rng, "pbkdf2", scalar, pw)
	case "v1-scrypt":
		js = buildV1(rng, "scrypt", scalar, pw)
	case "v1-pbkdf2":
		js = buildV1(rng, "pbkdf2", scalar, pw)
	}
	run.Count("base:" + format)
	run.Count(fmt.Sprintf("key-leading-zero-bytes:%d", zeros))
	run.Count(fmt.Sprintf("passphrase-kind:%d", passKind%6))
	return base{format, js, pw, scalar, addr}
}

// stripAddress removes the "address" member from a key file text.
var addressMember = regexp.MustCompile(`"address":"[0-9a-fA-F]*",`)

func stripAddress(js []byte) []byte { return addressMember.ReplaceAll(js, nil) }

// carriesAddress: every file this keystore writes names the address of its key (what a73be14 relies on).
func carriesAddress(step string, js []byte, addr common.Address) {
	if a := keystore.VerifAbstract(js); !strings.EqualFold(strings.TrimPrefix(a.Address, "0x"), hex.EncodeToString(addr[:])) {
		violate("flow", step+": key file without its address", map[string]interface{}{"keyjson": string(js)}, "address field is "+a.Address)
	}
}

// ---------------------------------------------------------------------------------------------------------------
// tampering

type span struct {
	field      string
	start, end int // value characters (without the quotes of a string)
	isName     bool
}

// spans locates every field value (and every field name) of the key file text.
func spans(js []byte) []span {
	s := string(js)
	var out []span
	names := []string{"address", "crypto", "cipher", "ciphertext", "cipherparams", "iv", "kdf", "kdfparams", "c", "dklen", "n", "p", "prf", "r", "salt", "mac", "id", "version"}
	pref := map[string]string{"c": "kdfparams.", "dklen": "kdfparams.", "n": "kdfparams.", "p": "kdfparams.", "prf": "kdfparams.", "r": "kdfparams.", "salt": "kdfparams."}
	for _, nm := range names {
		from := 0
		for {
			i := strings.Index(s[from:], `"`+nm+`":`)
			if i < 0 {
				break
			}
			i += from
			out = append(out, span{field: nm, start: i + 1, end: i + 1 + len(nm), isName: true})
			v := i + len(nm) + 3
			from = v
			if v >= len(s) {
				break
			}
			switch {
			case s[v] == '"':
				e := strings.IndexByte(s[v+1:], '"')
				if e >= 0 {
					out = append(out, span{field: pref[nm] + nm, start: v + 1, end: v + 1 + e})
				}
			case s[v] == '{':
			default:
				e := v
				for e < len(s) && s[e] != ',' && s[e] != '}' {
					e++
				}
				out = append(out, span{field: pref[nm] + nm, start: v, end: e})
			}
		}
	}
	return out
}

const hexLower = "0123456789abcdef"

// replacements for the character c of a field
func replacements(rng *hx.Rng, sp span, c byte, all bool) []byte {
	var pool []byte
	isHexField := map[string]bool{"ciphertext": true, "iv": true, "mac": true, "kdfparams.salt": true, "address": true}[sp.field]
	isNum := c >= '0' && c <= '9' && !isHexField && !sp.isName && sp.field != "id" && sp.field != "cipher" && sp.field != "kdfparams.prf"
	switch {
	case sp.isName:
		pool = []byte("abcxyzNPRS_0 ")
		if c >= 'a' && c <= 'z' {
			pool = append(pool, c-32)
		}
	case isHexField:
		pool = []byte(hexLower + "g G-")
		if c >= 'a' && c <= 'f' {
			pool = append(pool, c-32)
		}
	case isNum:
		pool = []byte("0123456789-e. ")
	default:
		pool = []byte("abcdefxyz0123456789-_ A\"")
	}
	var cand []byte
	for _, p := range pool {
		if p != c {
			cand = append(cand, p)
		}
	}
	if all {
		return cand
	}
	// quick tier: two random replacements, but always the boundary digits for numbers
	out := []byte{cand[rng.Intn(len(cand))], cand[rng.Intn(len(cand))]}
	if isNum {
		out = append(out, '0', '-')
		if c == '0' {
			out = out[:3]
		}
	}
	return out
}

func tamperBase(rng *hx.Rng, b base, all bool) {
	e := expect{"T", b.key, b.addr}
	for _, sp := range spans(b.js) {
		for pos := sp.start; pos < sp.end; pos++ {
			orig := b.js[pos]
			var edits [][]byte
			for _, r := range replacements(rng, sp, orig, all) {
				if r == orig {
					continue
				}
				t := append([]byte{}, b.js...)
				t[pos] = r
				edits = append(edits, t)
			}
			if all { // single-character deletion and insertion as well
				edits = append(edits, append(append([]byte{}, b.js[:pos]...), b.js[pos+1:]...))
				ins := append(append([]byte{}, b.js[:pos]...), orig)
				edits = append(edits, append(ins, b.js[pos:]...))
			}
			for _, t := range edits {
				newVal := ""
				if len(t) == len(b.js) {
					newVal = string(t[sp.start:sp.end])
				} else {
					newVal = string(t[sp.start : sp.end+len(t)-len(b.js)])
				}
				what := sp.field + " altered to " + newVal
				fld := sp.field
				if sp.isName {
					what = `key "` + sp.field + `" renamed`
					fld = "name:" + sp.field
				}
				if !sp.isName && map[string]bool{"ciphertext": true, "iv": true, "mac": true, "kdfparams.salt": true, "address": true, "id": true}[sp.field] {
					what = sp.field + " altered" // no panic expected here; keep the signature short
				}
				short := strings.TrimPrefix(fld, "kdfparams.")
				run.Count("tamper-field:" + fld)
				out := dkCase(origin{"bare DecryptKey", b.format, short, what}, e, t, b.pw)
				gkCase(origin{"KeyStore.Unlock", b.format, short, what}, e, t, b.pw)
				// Import goes through bare DecryptKey: run it whenever DecryptKey did not fail with an error, and on a sample otherwise
				if !strings.HasPrefix(out, "err") || rng.Intn(16) == 0 {
					importCase(origin{"KeyStore.Import", b.format, short, what}, e, t, b.pw)
				}
			}
		}
	}
}

// ---------------------------------------------------------------------------------------------------------------
// KeyStore flows (direct judgement of every step)

func flowFail(step string, in map[string]interface{}, detail string) {
	violate("flow", step, in, detail)
}

func flow(rng *hx.Rng, zeros, passKind, n, p int, lite bool) {
	dir := newDir()
	defer os.RemoveAll(dir)
	ks := keystore.NewKeyStore(dir, n, p)
	scalar := genScalar(rng, zeros)
	_, addr := addrOfScalar(scalar)
	pw := genPass(rng, passKind)
	in := map[string]interface{}{"key": hex.EncodeToString(scalar), "passphrase": pw, "scryptN": n, "scryptP": p}
	run.Count(fmt.Sprintf("flow:n=%d,p=%d", n, p))
	run.Count(fmt.Sprintf("key-leading-zero-bytes:%d", zeros))
	run.Count(fmt.Sprintf("passphrase-kind:%d", passKind%6))
	format := "v3-scrypt"
	eR := expect{"R", scalar, addr}
	run.Current("flow ImportECDSA")
	acc, err := ks.ImportECDSA(crypto.ToECDSAUnsafe(scalar), pw)
	if err != nil || acc.Address != addr {
		flowFail("ImportECDSA", in, fmt.Sprintf("err=%v address %x want %x", err, acc.Address, addr))
		return
	}
	js, err := os.ReadFile(acc.URL.Path)
	if err != nil {
		panic(err)
	}
	carriesAddress("ImportECDSA", js, addr)
	dkCase(origin{"bare DecryptKey", format, "", ""}, eR, js, pw)
	misses := nearMiss(rng, pw, false)
	if lite && len(misses) > 2 {
		misses = []string{misses[rng.Intn(len(misses))], misses[rng.Intn(len(misses))]}
	}
	for _, w := range misses {
		run.Current("flow Unlock wrong")
		if err := ks.Unlock(acc, w); err == nil {
			violate("wrong-pass-accepted", "KeyStore.Unlock "+format, map[string]interface{}{"key": in["key"], "passphrase": pw, "tried": w}, fmt.Sprintf("Unlock with another passphrase: %v", err))
		}
		if _, err := ks.SignHash(acc, signHash); err != keystore.ErrLocked {
			flowFail("SignHash after failed Unlock", in, fmt.Sprintf("%v", err))
		}
		run.Count("out:KeyStore.Unlock:W:err:decrypt")
		if !lite {
			dkCase(origin{"bare DecryptKey", format, "", ""}, expect{kind: "W"}, js, w)
		}
	}
	run.Current("flow Unlock")
	if err := ks.Unlock(acc, pw); err != nil {
		violate("roundtrip", "KeyStore.Unlock "+format, in, fmt.Sprintf("Unlock with the right passphrase: %v", err))
		return
	}
	if s, err := signerAfterUnlock(ks, acc); err != nil || s != hex.EncodeToString(addr[:]) {
		violate("signer-mismatch", "KeyStore.Unlock", in, fmt.Sprintf("signer %s err %v want %x", s, err, addr))
	}
	// "with any other passphrase unlocking fails with an error" also when the account is ALREADY unlocked (indefinitely or
	// with a timeout): the passphrase must be checked before anything else; the existing unlock is not disturbed.
	for _, w := range []string{misses[0], misses[len(misses)-1]} {
		run.Current("flow Unlock wrong while unlocked")
		if err := ks.Unlock(acc, w); err == nil {
			violate("wrong-pass-accepted", "KeyStore.Unlock (already unlocked) "+format, map[string]interface{}{"key": in["key"], "passphrase": pw, "tried": w}, "Unlock with another passphrase succeeded on an already unlocked account")
		}
		if err := ks.TimedUnlock(acc, w, time.Hour); err == nil {
			violate("wrong-pass-accepted", "KeyStore.TimedUnlock (already unlocked) "+format, map[string]interface{}{"key": in["key"], "passphrase": pw, "tried": w}, "TimedUnlock with another passphrase succeeded on an already unlocked account")
		}
		run.Count("out:KeyStore.Unlock(already unlocked):W:err")
	}
	if s, err := signerAfterUnlock(ks, acc); err != nil || s != hex.EncodeToString(addr[:]) {
		flowFail("SignHash after a refused second Unlock", in, fmt.Sprintf("signer %s err %v", s, err))
	}
	ks.Lock(acc.Address)
	if _, err := ks.SignHash(acc, signHash); err != keystore.ErrLocked {
		flowFail("SignHash after Lock", in, fmt.Sprintf("%v", err))
	}
	// the same with a timed unlock in place
	if err := ks.TimedUnlock(acc, pw, time.Hour); err != nil {
		violate("roundtrip", "KeyStore.TimedUnlock "+format, in, fmt.Sprintf("TimedUnlock with the right passphrase: %v", err))
	} else {
		if err := ks.Unlock(acc, misses[0]); err == nil {
			violate("wrong-pass-accepted", "KeyStore.Unlock (timed unlock active) "+format, map[string]interface{}{"key": in["key"], "passphrase": pw, "tried": misses[0]}, "Unlock with another passphrase succeeded while a timed unlock is active")
		}
		if err := ks.TimedUnlock(acc, misses[0], time.Hour); err == nil {
			violate("wrong-pass-accepted", "KeyStore.TimedUnlock (timed unlock active) "+format, map[string]interface{}{"key": in["key"], "passphrase": pw, "tried": misses[0]}, "TimedUnlock with another passphrase succeeded while a timed unlock is active")
		}
		ks.Lock(acc.Address)
		if _, err := ks.SignHash(acc, signHash); err != keystore.ErrLocked {
			flowFail("SignHash after Lock of a timed unlock", in, fmt.Sprintf("%v", err))
		}
	}
	// Export / Import
	pw2, pw3, pw4 := genPass(rng, rng.Intn(6)), genPass(rng, rng.Intn(6)), genPass(rng, 5)
	run.Current("flow Export")
	js2, err := ks.Export(acc, pw, pw2)
	if err != nil {
		flowFail("Export", in, fmt.Sprintf("%v", err))
		return
	}
	carriesAddress("Export", js2, addr)
	dkCase(origin{"bare DecryptKey", format, "", ""}, eR, js2, pw2)
	if _, err := ks.Export(acc, misses[0], pw2); err == nil {
		violate("wrong-pass-accepted", "KeyStore.Export "+format, in, fmt.Sprintf("Export with another passphrase: %v", err))
	}
	dir2 := newDir()
	defer os.RemoveAll(dir2)
	ks2 := keystore.NewKeyStore(dir2, n, p)
	run.Current("flow Import")
	if w := nearMiss(rng, pw2, false)[0]; true {
		if _, err := ks2.Import(js2, w, pw3); err == nil || len(ks2.Accounts()) != 0 {
			violate("wrong-pass-accepted", "KeyStore.Import "+format, in, fmt.Sprintf("Import with another passphrase: %v, accounts %d", err, len(ks2.Accounts())))
		}
	}
	acc2, err := ks2.Import(js2, pw2, pw3)
	if err != nil || acc2.Address != addr {
		violate("roundtrip", "KeyStore.Import "+format, in, fmt.Sprintf("err=%v address %x want %x", err, acc2.Address, addr))
		return
	}
	if err := ks2.Unlock(acc2, pw3); err != nil {
		violate("roundtrip", "KeyStore.Unlock "+format, in, fmt.Sprintf("Unlock after Import: %v", err))
	} else if s, err := signerAfterUnlock(ks2, acc2); err != nil || s != hex.EncodeToString(addr[:]) {
		violate("signer-mismatch", "KeyStore.Unlock", in, fmt.Sprintf("after Import: signer %s err %v want %x", s, err, addr))
	}
	// Update
	run.Current("flow Update")
	if err := ks.Update(acc, misses[len(misses)-1], pw4); err == nil {
		violate("wrong-pass-accepted", "KeyStore.Update "+format, in, fmt.Sprintf("Update with another passphrase: %v", err))
	}
	if err := ks.Update(acc, pw, pw4); err != nil {
		flowFail("Update", in, fmt.Sprintf("%v", err))
		return
	}
	js3, _ := os.ReadFile(acc.URL.Path)
	carriesAddress("Update", js3, addr)
	dkCase(origin{"bare DecryptKey", format, "", ""}, eR, js3, pw4)
	if pw != pw4 {
		if err := ks.Unlock(acc, pw); err == nil {
			violate("wrong-pass-accepted", "KeyStore.Unlock "+format, in, fmt.Sprintf("old passphrase after Update: %v", err))
		}
	}
	// signing with passphrase
	run.Current("flow SignWithPassphrase")
	if sig, err := ks.SignHashWithPassphrase(acc, pw4, signHash); err != nil {
		violate("roundtrip", "KeyStore.SignHashWithPassphrase "+format, in, fmt.Sprintf("%v", err))
	} else if pub, err := crypto.SigToPub(signHash, sig); err != nil || crypto.PubkeyToAddress(pub) != addr {
		violate("signer-mismatch", "KeyStore.SignHashWithPassphrase", in, fmt.Sprintf("err %v", err))
	}
	if _, err := ks.SignHashWithPassphrase(acc, pw4+"x", signHash); err == nil {
		violate("wrong-pass-accepted", "KeyStore.SignHashWithPassphrase "+format, in, fmt.Sprintf("%v", err))
	}
	if !lite {
		tx := types.NewTransaction(1, common.Address{1}, big.NewInt(1), 21000, big.NewInt(1), nil)
		chain := big.NewInt(int64(1 + rng.Intn(100000)))
		if stx, err := ks.SignTxWithPassphrase(acc, pw4, tx, chain); err != nil {
			violate("roundtrip", "KeyStore.SignTxWithPassphrase "+format, in, fmt.Sprintf("%v", err))
		} else if from, err := types.Sender(types.NewEIP155Signer(chain), stx); err != nil || from != addr {
			violate("signer-mismatch", "KeyStore.SignTxWithPassphrase", in, fmt.Sprintf("sender %x err %v", from, err))
		}
	}
	// Delete
	run.Current("flow Delete")
	if err := ks.Delete(acc, pw4+"y"); err == nil {
		violate("wrong-pass-accepted", "KeyStore.Delete "+format, in, fmt.Sprintf("%v", err))
	}
	if _, err := os.Stat(acc.URL.Path); err != nil {
		flowFail("Delete with wrong passphrase removed the file", in, fmt.Sprintf("%v", err))
	}
	if err := ks.Delete(acc, pw4); err != nil {
		flowFail("Delete", in, fmt.Sprintf("%v", err))
	}
	// NewAccount (key generated inside): the exported key must carry the account's address, and sign for it
	run.Current("flow NewAccount")
	acc3, err := ks.NewAccount(pw)
	if err != nil {
		flowFail("NewAccount", in, fmt.Sprintf("%v", err))
		return
	}
	js4, _ := os.ReadFile(acc3.URL.Path)
	carriesAddress("NewAccount", js4, acc3.Address)
	k4, err := keystore.DecryptKey(js4, pw)
	if err != nil || k4.Address != acc3.Address || crypto.PubkeyToAddress(k4.PrivateKey.PubKey()) != acc3.Address {
		violate("roundtrip", "KeyStore.NewAccount "+format, in, fmt.Sprintf("DecryptKey of the new account's file: %v", err))
		return
	}
	dkCase(origin{"bare DecryptKey", format, "", ""}, expect{"R", k4.PrivateKey.Serialize(), acc3.Address}, js4, pw)
	if err := ks.Unlock(acc3, pw); err != nil {
		violate("roundtrip", "KeyStore.Unlock "+format, in, fmt.Sprintf("Unlock of a new account: %v", err))
	} else if s, err := signerAfterUnlock(ks, acc3); err != nil || s != hex.EncodeToString(acc3.Address[:]) {
		violate("signer-mismatch", "KeyStore.Unlock", in, fmt.Sprintf("new account signer %s err %v", s, err))
	}
}

// ---------------------------------------------------------------------------------------------------------------
// whole-file substitution: account A's key file is replaced on disk by a self-consistent file of ANOTHER key B while the
// KeyStore still lists the path as A (no rescan is awaited; if one happens the path is no longer A's and every operation
// fails, which is fine).  Every KeyStore operation on A must fail with an error or still use A's key.
func substitutionCases(rng *hx.Rng, n int) {
	for i := 0; i < n; i++ {
		dir := newDir()
		ks := keystore.NewKeyStore(dir, 2, 1)
		sA, sB := genScalar(rng, i%4), genScalar(rng, (i+1)%4)
		_, addrA := addrOfScalar(sA)
		_, addrB := addrOfScalar(sB)
		pwA, pwB := genPass(rng, 5), genPass(rng, 1+i%5)
		if pwA == pwB {
			pwB += "b"
		}
		accA, errA := ks.ImportECDSA(crypto.ToECDSAUnsafe(sA), pwA)
		accB, errB := ks.ImportECDSA(crypto.ToECDSAUnsafe(sB), pwB)
		if errA != nil || errB != nil || accA.Address != addrA || accB.Address != addrB {
			flowFail("substitution setup", map[string]interface{}{"a": hex.EncodeToString(sA), "b": hex.EncodeToString(sB)}, fmt.Sprint(errA, errB))
			os.RemoveAll(dir)
			continue
		}
		origA, _ := os.ReadFile(accA.URL.Path)
		jsB, _ := os.ReadFile(accB.URL.Path)
		reB, err := keystore.EncryptKey(mkKey(rng, sB), pwA, 2, 1)
		if err != nil {
			panic(err)
		}
		rewritten := []byte(strings.Replace(string(jsB), hex.EncodeToString(addrB[:]), hex.EncodeToString(addrA[:]), 1))
		type variant struct {
			what string
			js   []byte
			pws  []string
		}
		vs := []variant{
			{"B's file", jsB, []string{pwB, pwA}},
			{"B re-encrypted under A's passphrase", reB, []string{pwA}},
			{"B's file with the address field rewritten to A's", rewritten, []string{pwB}},
		}
		hexA := hex.EncodeToString(addrA[:])
		e := expect{"T", sA, addrA}
		for _, v := range vs {
			for _, pw := range v.pws {
				in := map[string]interface{}{"accountA": hexA, "keyA": hex.EncodeToString(sA), "keyB": hex.EncodeToString(sB), "file-now-at-A's-path": string(v.js), "passphrase": pw, "variant": v.what}
				put := func() {
					if err := os.WriteFile(accA.URL.Path, v.js, 0o600); err != nil {
						panic(err)
					}
				}
				check := func(op, out string) {
					run.Count("subst:" + op + ":" + strings.Fields(out)[0])
					switch {
					case strings.HasPrefix(out, "panic"):
						violate("panic", "KeyStore."+op+" panic after whole-file substitution", in, out)
					case strings.HasPrefix(out, "ok") && out != "ok "+hexA:
						violate("substituted-key-used", "KeyStore."+op+" after whole-file substitution ("+v.what+")", in,
							"operation on account "+hexA+" succeeded with another key: "+out)
					}
				}
				unlockAndSign := func(timed bool) string {
					return hx.Safe(func() string {
						var err error
						if timed {
							err = ks.TimedUnlock(accA, pw, time.Hour)
						} else {
							err = ks.Unlock(accA, pw)
						}
						if err != nil {
							return "err " + errClass(err)
						}
						defer ks.Lock(accA.Address)
						sgn, err := signerAfterUnlock(ks, accA)
						if err != nil {
							return "err sign:" + errClass(err)
						}
						return "ok " + sgn
					})
				}
				put()
				run.Current("subst Unlock " + v.what)
				out := unlockAndSign(false)
				check("Unlock", out)
				// the model's GetKey for account A on the substituted file
				a := keystore.VerifAbstract(v.js)
				run.Case("gk "+e.String()+" "+hexA+" "+absFields(a)+" "+hs(pw)+" "+oracles(a, pw, [][]byte{sA, sB}), canon(out))
				check("TimedUnlock", unlockAndSign(true))
				check("SignHashWithPassphrase", hx.Safe(func() string {
					sig, err := ks.SignHashWithPassphrase(accA, pw, signHash)
					if err != nil {
						return "err " + errClass(err)
					}
					pub, err := crypto.SigToPub(signHash, sig)
					if err != nil {
						return "err sig"
					}
					ad := crypto.PubkeyToAddress(pub)
					return "ok " + hex.EncodeToString(ad[:])
				}))
				check("SignTxWithPassphrase", hx.Safe(func() string {
					chain := big.NewInt(3)
					tx := types.NewTransaction(1, common.Address{1}, big.NewInt(1), 21000, big.NewInt(1), nil)
					stx, err := ks.SignTxWithPassphrase(accA, pw, tx, chain)
					if err != nil {
						return "err " + errClass(err)
					}
					from, err := types.Sender(types.NewEIP155Signer(chain), stx)
					if err != nil {
						return "err sender"
					}
					return "ok " + hex.EncodeToString(from[:])
				}))
				check("Export", hx.Safe(func() string {
					j, err := ks.Export(accA, pw, "exported")
					if err != nil {
						return "err " + errClass(err)
					}
					ab := keystore.VerifAbstract(j)
					return "ok " + strings.ToLower(strings.TrimPrefix(ab.Address, "0x")) // the address of the key that was exported
				}))
				check("Update", hx.Safe(func() string {
					if err := ks.Update(accA, pw, "updated"); err != nil {
						return "err " + errClass(err)
					}
					j, _ := os.ReadFile(accA.URL.Path)
					ab := keystore.VerifAbstract(j)
					return "ok " + strings.ToLower(strings.TrimPrefix(ab.Address, "0x")) // whose key now sits at A's path
				}))
				put()
				check("Delete", hx.Safe(func() string {
					if err := ks.Delete(accA, pw); err != nil {
						return "err " + errClass(err)
					}
					return "ok deleted-with-another-key"
				}))
			}
		}
		// A's own file back: A works again
		os.WriteFile(accA.URL.Path, origA, 0o600)
		if err := ks.Unlock(accA, pwA); err != nil {
			if len(ks.Accounts()) == 2 { // (after a Delete that went through, the account is gone: already reported)
				flowFail("substitution: A's own file restored", map[string]interface{}{"accountA": hexA}, fmt.Sprintf("%v", err))
			}
		} else if sg, err := signerAfterUnlock(ks, accA); err != nil || sg != hexA {
			violate("signer-mismatch", "KeyStore.Unlock", map[string]interface{}{"accountA": hexA}, fmt.Sprintf("after restoring A's file: signer %s err %v", sg, err))
		}
		os.RemoveAll(dir)
		run.Count("substitution")
	}
}

// updateCases: KeyStore.Update must leave at the path EXACTLY the new encoding (file = last write, no residue), whatever was
// there before: a LONGER encoding written by another KeyStore on the same directory with larger scrypt parameters, an
// indented re-serialisation of the file, a legacy v1 file.  Afterwards the new passphrase opens the identical key and
// address (Unlock + signer, Export, DecryptKey of the file bytes) and the old one fails.
func updateCases(rng *hx.Rng, rounds int, thorough bool) {
	type params struct{ n1, p1, n2, p2 int }
	combos := []params{{1024, 10, 2, 1}, {4096, 1, 2, 1}, {256, 12, 128, 3}, {2, 1, 1024, 10}, {1024, 1, 1024, 1}}
	if thorough {
		combos = append(combos, params{16384, 1, 4096, 1}, params{keystore.LightScryptN, keystore.LightScryptP, 2, 1})
	}
	verify := func(family string, ks *keystore.KeyStore, acc accounts.Account, scalar []byte, addr common.Address, pwOld, pwNew string, n2, p2 int, before []byte) {
		in := map[string]interface{}{"family": family, "key": hex.EncodeToString(scalar), "old-passphrase": pwOld, "new-passphrase": pwNew,
			"file-before-update": string(before), "scryptN": n2, "scryptP": p2}
		run.Current("update " + family)
		if err := ks.Update(acc, pwOld, pwNew); err != nil {
			violate("roundtrip", "KeyStore.Update ("+family+")", in, fmt.Sprintf("Update with the right passphrase: %v", err))
			return
		}
		js, err := os.ReadFile(acc.URL.Path)
		if err != nil {
			panic(err)
		}
		in["file-after-update"] = string(js)
		eR := expect{"R", scalar, addr}
		if !json.Valid(js) {
			violate("update-residue", "KeyStore.Update ("+family+"): file is not exactly the new encoding", in,
				fmt.Sprintf("the file after Update is not a JSON document (%d bytes, %d before)", len(js), len(before)))
		} else if a := keystore.VerifAbstract(js); asNum(a.KDFParams["n"]).v != n2 || asNum(a.KDFParams["p"]).v != p2 {
			violate("update-residue", "KeyStore.Update ("+family+"): kdfparams are not those of the updating KeyStore", in, fmt.Sprint(a.KDFParams))
		}
		dkCase(origin{"bare DecryptKey (file after Update, " + family + ")", "v3-scrypt", "", ""}, eR, js, pwNew)
		if pwOld != pwNew {
			dkCase(origin{"bare DecryptKey (file after Update, " + family + ")", "v3-scrypt", "", ""}, expect{kind: "W"}, js, pwOld)
			if err := ks.Unlock(acc, pwOld); err == nil {
				violate("wrong-pass-accepted", "KeyStore.Unlock after Update ("+family+")", in, "the old passphrase still unlocks")
				ks.Lock(acc.Address)
			}
		}
		if err := ks.Unlock(acc, pwNew); err != nil {
			violate("roundtrip", "KeyStore.Unlock after Update ("+family+")", in, fmt.Sprintf("the new passphrase does not unlock: %v", err))
		} else {
			if sg, err := signerAfterUnlock(ks, acc); err != nil || sg != hex.EncodeToString(addr[:]) {
				violate("signer-mismatch", "KeyStore.Unlock after Update", in, fmt.Sprintf("signer %s err %v", sg, err))
			}
			ks.Lock(acc.Address)
		}
		if ex, err := ks.Export(acc, pwNew, "exported"); err != nil {
			violate("roundtrip", "KeyStore.Export after Update ("+family+")", in, fmt.Sprintf("%v", err))
		} else {
			dkCase(origin{"bare DecryptKey (Export after Update, " + family + ")", "v3-scrypt", "", ""}, eR, ex, "exported")
		}
		run.Count("update:" + family)
	}
	for rd := 0; rd < rounds; rd++ {
		for _, c := range combos {
			// (a) written by a KeyStore with (n1,p1), updated through a second KeyStore on the same directory with (n2,p2)
			dir := newDir()
			scalar := genScalar(rng, rd%4)
			_, addr := addrOfScalar(scalar)
			pwOld, pwNew := genPass(rng, 5), genPass(rng, 1+rng.Intn(5))
			ks1 := keystore.NewKeyStore(dir, c.n1, c.p1)
			acc, err := ks1.ImportECDSA(crypto.ToECDSAUnsafe(scalar), pwOld)
			if err != nil {
				panic(err)
			}
			before, _ := os.ReadFile(acc.URL.Path)
			ks2 := keystore.NewKeyStore(dir, c.n2, c.p2)
			if accs := ks2.Accounts(); len(accs) == 1 {
				verify(fmt.Sprintf("n,p %d,%d -> %d,%d", c.n1, c.p1, c.n2, c.p2), ks2, accs[0], scalar, addr, pwOld, pwNew, c.n2, c.p2, before)
			} else {
				flowFail("update: second KeyStore on the directory", map[string]interface{}{"dir": dir}, fmt.Sprint(len(accs), " accounts"))
			}
			os.RemoveAll(dir)
		}
		// (b) an indented re-serialisation of the file (same content, longer text), (c) a legacy v1 file
		for _, fam := range []string{"indented file", "v1-scrypt file", "v1-pbkdf2 file", "v3-pbkdf2 file"} {
			dir := newDir()
			scalar := genScalar(rng, (rd+1)%4)
			_, addr := addrOfScalar(scalar)
			pwOld, pwNew := genPass(rng, 5), genPass(rng, 1+rng.Intn(5))
			var content []byte
			switch fam {
			case "indented file":
				js, err := keystore.EncryptKey(mkKey(rng, scalar), pwOld, 2, 1)
				if err != nil {
					panic(err)
				}
				var m map[string]interface{}
				json.Unmarshal(js, &m)
				content, _ = json.MarshalIndent(m, "", "    ")
			case "v1-scrypt file":
				content = buildV1(rng, "scrypt", scalar, pwOld)
			case "v1-pbkdf2 file":
				content = buildV1(rng, "pbkdf2", scalar, pwOld)
			default:
				content = buildV3(rng, "pbkdf2", scalar, pwOld)
			}
			fn := filepath.Join(dir, "UTC--2026-01-01T00-00-00.000000000Z--"+hex.EncodeToString(addr[:]))
			if err := os.WriteFile(fn, content, 0o600); err != nil {
				panic(err)
			}
			ks := keystore.NewKeyStore(dir, 2, 1)
			if accs := ks.Accounts(); len(accs) == 1 {
				verify(fam, ks, accs[0], scalar, addr, pwOld, pwNew, 2, 1, content)
			} else {
				flowFail("update: foreign file not listed", map[string]interface{}{"file": string(content)}, fmt.Sprint(len(accs), " accounts"))
			}
			os.RemoveAll(dir)
		}
	}
	// (d) the repo's own v1 key directory (scrypt n = 262144: thorough only)
	if thorough {
		repo := os.Getenv("VERIF_REPO")
		if repo == "" {
			repo = "/repo"
		}
		src := filepath.Join(repo, "testdata", "testkeystore", "v1", "cb61d5a9c4896fb9658090b597ef0e7be6f7b67e", "cb61d5a9c4896fb9658090b597ef0e7be6f7b67e")
		if content, err := os.ReadFile(src); err == nil {
			if k, err := keystore.DecryptKey(content, "g"); err == nil {
				dir := newDir()
				fn := filepath.Join(dir, "UTC--2026-01-01T00-00-00.000000000Z--cb61d5a9c4896fb9658090b597ef0e7be6f7b67e")
				os.WriteFile(fn, content, 0o600)
				ks := keystore.NewKeyStore(dir, 2, 1)
				if accs := ks.Accounts(); len(accs) == 1 {
					verify("repo testdata v1 file", ks, accs[0], k.PrivateKey.Serialize(), k.Address, "g", "new passphrase", 2, 1, content)
				}
				os.RemoveAll(dir)
			}
		}
	}
}

// concurrentCases: EncryptKey is a pure function of (key, passphrase, n, p, salt, iv): the output of one call must not depend
// on other calls running at the same time.  k goroutines encrypt / store / update / export concurrently, every call with its
// OWN scrypt parameters (large enough for the calls to overlap); afterwards, on the main goroutine, every produced blob must
// carry the (n, p) of its own call and open with its own passphrase to its own key.
func concurrentCases(rng *hx.Rng, rounds, k int) {
	type job struct {
		scalar []byte
		pw     string
		n, p   int
		what   string
		blobs  [][]byte // results
		errs   []string
	}
	ns := []int{1024, 2048, 4096, 8192, 16384}
	for rd := 0; rd < rounds; rd++ {
		jobs := make([]*job, k)
		root := newDir()
		for i := range jobs {
			jobs[i] = &job{scalar: genScalar(rng, i%4), pw: fmt.Sprintf("pass-%d-%d-%s", rd, i, genPass(rng, 5)), n: ns[(i+rd)%len(ns)], p: 1 + (i+rd)%3,
				what: []string{"EncryptKey", "ImportECDSA+Export", "NewAccount", "ImportECDSA+Update"}[i%4]}
		}
		keys := make([]*keystore.Key, k)
		for i, j := range jobs {
			keys[i] = mkKey(rng, j.scalar) // (rng is not goroutine-safe: everything random is drawn here)
		}
		var wg sync.WaitGroup
		for i, j := range jobs {
			wg.Add(1)
			go func(i int, j *job) {
				defer wg.Done()
				defer func() {
					if e := recover(); e != nil {
						j.errs = append(j.errs, fmt.Sprint("panic: ", e))
					}
				}()
				dir := filepath.Join(root, strconv.Itoa(i))
				for rep := 0; rep < 2; rep++ {
					switch j.what {
					case "EncryptKey":
						b, err := keystore.EncryptKey(keys[i], j.pw, j.n, j.p)
						if err != nil {
							j.errs = append(j.errs, err.Error())
						} else {
							j.blobs = append(j.blobs, b)
						}
					case "ImportECDSA+Export", "ImportECDSA+Update":
						ks := keystore.NewKeyStore(filepath.Join(dir, strconv.Itoa(rep)), j.n, j.p)
						acc, err := ks.ImportECDSA(crypto.ToECDSAUnsafe(j.scalar), j.pw)
						if err != nil {
							j.errs = append(j.errs, err.Error())
							continue
						}
						if b, err := os.ReadFile(acc.URL.Path); err == nil {
							j.blobs = append(j.blobs, b)
						}
						if j.what == "ImportECDSA+Export" {
							if b, err := ks.Export(acc, j.pw, j.pw); err != nil {
								j.errs = append(j.errs, "Export: "+err.Error())
							} else {
								j.blobs = append(j.blobs, b)
							}
						} else {
							if err := ks.Update(acc, j.pw, j.pw); err != nil {
								j.errs = append(j.errs, "Update: "+err.Error())
							} else if b, err := os.ReadFile(acc.URL.Path); err == nil {
								j.blobs = append(j.blobs, b)
							}
						}
					case "NewAccount":
						ks := keystore.NewKeyStore(filepath.Join(dir, strconv.Itoa(rep)), j.n, j.p)
						acc, err := ks.NewAccount(j.pw)
						if err != nil {
							j.errs = append(j.errs, err.Error())
							continue
						}
						if b, err := os.ReadFile(acc.URL.Path); err == nil {
							j.blobs = append(j.blobs, b)
						}
					}
				}
			}(i, j)
		}
		wg.Wait()
		for i, j := range jobs {
			in := map[string]interface{}{"key": hex.EncodeToString(j.scalar), "passphrase": j.pw, "scryptN": j.n, "scryptP": j.p, "goroutines": k, "operation": j.what, "goroutine": i}
			for _, e := range j.errs {
				violate("concurrent-roundtrip", "concurrent "+j.what+": operation failed", in, e)
			}
			for _, b := range j.blobs {
				in["keyjson"] = string(b)
				a := keystore.VerifAbstract(b)
				if asNum(a.KDFParams["n"]).v != j.n || asNum(a.KDFParams["p"]).v != j.p {
					violate("concurrent-roundtrip", "concurrent "+j.what+": kdfparams of another call", in,
						fmt.Sprintf("file says n=%d p=%d, the call used n=%d p=%d", asNum(a.KDFParams["n"]).v, asNum(a.KDFParams["p"]).v, j.n, j.p))
				}
				out := decryptKey(b, j.pw)
				if j.what == "NewAccount" { // the key was generated inside: the file must open and carry its own address
					if !strings.HasPrefix(out, "ok") {
						violate("concurrent-roundtrip", "concurrent "+j.what+": file does not open with its own passphrase", in, out)
					}
				} else {
					_, addr := addrOfScalar(j.scalar)
					if out != "ok "+hex.EncodeToString(j.scalar)+" "+hex.EncodeToString(addr[:]) {
						violate("concurrent-roundtrip", "concurrent "+j.what+": file does not open with its own passphrase to its own key", in, out)
					}
					dkCase(origin{"bare DecryptKey (written concurrently by " + j.what + ")", "v3-scrypt", "", ""}, expect{"R", j.scalar, addr}, b, j.pw)
				}
				run.Count("concurrent:" + j.what)
			}
		}
		os.RemoveAll(root)
	}
}

// historyCases: unlock-state histories on ONE KeyStore: random sequences over Unlock, TimedUnlock (long / short), Lock,
// wrong-passphrase Unlock / TimedUnlock, SignHash, SignTx, SignHashWithPassphrase, Update, Export.  A ghost state
// (locked | unlocked indefinitely | unlocked with expiry, current passphrase) is tracked; after every Sign*: success must
// recover to the account's address AND be byte-equal to the signature made with the original ECDSA key (RFC 6979:
// deterministic); a locked account must answer ErrLocked.
func historyCases(rng *hx.Rng, n, steps int) {
	for i := 0; i < n; i++ {
		dir := newDir()
		ks := keystore.NewKeyStore(dir, 2, 1)
		scalar := genScalar(rng, i%4)
		priv := crypto.ToECDSAUnsafe(scalar)
		_, addr := addrOfScalar(scalar)
		hexAddr := hex.EncodeToString(addr[:])
		pw := genPass(rng, 5)
		acc, err := ks.ImportECDSA(crypto.ToECDSAUnsafe(scalar), pw)
		if err != nil {
			panic(err)
		}
		state := "locked" // locked | indefinite | timed
		var hist []string
		var toks, obs []string // the same history for the model (Driver/C20 `hist`): op tokens and what was observed
		rec := func(tok, o string) { toks = append(toks, tok); obs = append(obs, o) }
		okErr := func(err error) string {
			if err == nil {
				return "ok"
			}
			return "err"
		}
		in := func() map[string]interface{} {
			return map[string]interface{}{"key": hex.EncodeToString(scalar), "account": hexAddr, "history": strings.Join(hist, "; "), "passphrase-now": pw}
		}
		bad := func(kind, what, detail string) {
			violate(kind, "unlock history: "+what, in(), detail+" after ["+strings.Join(hist, "; ")+"]")
		}
		wrong := func() string { return nearMiss(rng, pw, false)[0] }
		checkSign := func() {
			h := crypto.Keccak256([]byte(fmt.Sprint("history ", i, len(hist))))
			hist = append(hist, "SignHash")
			run.Current("history SignHash")
			sig, err := ks.SignHash(acc, h)
			want, _ := crypto.Sign(h, priv)
			switch {
			case state == "locked":
				if err != keystore.ErrLocked {
					bad("flow", "SignHash on a locked account", fmt.Sprintf("err = %v (want ErrLocked)", err))
				}
			case err != nil:
				bad("flow", "SignHash on an unlocked account fails", err.Error())
			default:
				pub, perr := crypto.SigToPub(h, sig)
				if perr != nil || hex.EncodeToString(crypto.Keccak256(pub.SerializeUncompressed()[1:])[12:]) != hexAddr {
					bad("signer-mismatch", "SignHash does not sign with the account's key", fmt.Sprintf("signature %x does not recover to %s (%v)", sig, hexAddr, perr))
				} else if string(sig) != string(want) {
					bad("signer-mismatch", "SignHash signature differs from the stored key's", fmt.Sprintf("%x vs %x", sig, want))
				}
			}
			o := "bad"
			if err == keystore.ErrLocked {
				o = "locked"
			} else if err == nil && string(sig) == string(want) {
				o = "ok"
			}
			rec("S", o)
			run.Count("history:SignHash:" + state)
		}
		checkSignTx := func() {
			chain := big.NewInt(int64(1 + rng.Intn(1000)))
			tx := types.NewTransaction(uint64(len(hist)), common.Address{2}, big.NewInt(3), 21000, big.NewInt(1), nil)
			hist = append(hist, "SignTx")
			run.Current("history SignTx")
			stx, err := ks.SignTx(acc, tx, chain)
			switch {
			case state == "locked":
				if err != keystore.ErrLocked {
					bad("flow", "SignTx on a locked account", fmt.Sprintf("err = %v (want ErrLocked)", err))
				}
			case err != nil:
				bad("signer-mismatch", "SignTx on an unlocked account fails", err.Error()) // (SignTx's own sender check)
			default:
				want, _ := types.SignTx(tx, types.NewEIP155Signer(chain), priv)
				if from, e := types.Sender(types.NewEIP155Signer(chain), stx); e != nil || from != addr {
					bad("signer-mismatch", "SignTx does not sign with the account's key", fmt.Sprintf("sender %x err %v", from, e))
				} else if want == nil || stx.Hash() != want.Hash() {
					bad("signer-mismatch", "SignTx signature differs from the stored key's", "transaction hashes differ")
				}
			}
			o := "bad"
			if err == keystore.ErrLocked {
				o = "locked"
			} else if err == nil {
				if want, _ := types.SignTx(tx, types.NewEIP155Signer(chain), priv); want != nil && stx.Hash() == want.Hash() {
					o = "ok"
				}
			}
			rec("T", o)
			run.Count("history:SignTx:" + state)
		}
		for st := 0; st < steps; st++ {
			switch op := rng.Intn(12); op {
			case 0, 1: // Unlock
				hist = append(hist, "Unlock")
				run.Current("history Unlock")
				err := ks.Unlock(acc, pw)
				rec("Uri", okErr(err))
				if err != nil {
					bad("roundtrip", "Unlock with the right passphrase fails", err.Error())
				} else {
					state = "indefinite"
				}
			case 2: // TimedUnlock, long
				hist = append(hist, "TimedUnlock(1h)")
				err := ks.TimedUnlock(acc, pw, time.Hour)
				rec("Urt", okErr(err))
				if err != nil {
					bad("roundtrip", "TimedUnlock with the right passphrase fails", err.Error())
				} else if state != "indefinite" {
					state = "timed"
				}
			case 3: // TimedUnlock, short: the account locks itself again (only from a state that can expire)
				if state == "indefinite" {
					hist = append(hist, "TimedUnlock(20ms)")
					err := ks.TimedUnlock(acc, pw, 20*time.Millisecond)
					rec("Urt", okErr(err))
					if err != nil {
						bad("roundtrip", "TimedUnlock with the right passphrase fails", err.Error())
					}
					continue // stays unlocked indefinitely
				}
				hist = append(hist, "TimedUnlock(20ms)+wait")
				if err := ks.TimedUnlock(acc, pw, 20*time.Millisecond); err != nil {
					rec("Urt", "err")
					bad("roundtrip", "TimedUnlock with the right passphrase fails", err.Error())
					continue
				}
				rec("Urt", "ok")
				locked := false
				for w := 0; w < 300 && !locked; w++ {
					time.Sleep(10 * time.Millisecond)
					_, err := ks.SignHash(acc, signHash)
					locked = err == keystore.ErrLocked
				}
				if !locked {
					run.Count("history:expiry-not-observed-within-3s")
					ks.Lock(acc.Address)
					rec("L", "-")
				} else {
					rec("X", "-") // the expiry timer fired (observed: ErrLocked)
				}
				state = "locked"
			case 4:
				hist = append(hist, "Lock")
				ks.Lock(acc.Address)
				rec("L", "-")
				state = "locked"
			case 5: // wrong passphrase
				w := wrong()
				hist = append(hist, "Unlock(wrong)")
				e1 := ks.Unlock(acc, w)
				rec("Uwi", okErr(e1))
				if e1 == nil {
					bad("wrong-pass-accepted", "Unlock with another passphrase", "succeeded")
				}
				e2 := ks.TimedUnlock(acc, w, time.Hour)
				rec("Uwt", okErr(e2))
				if e2 == nil {
					bad("wrong-pass-accepted", "TimedUnlock with another passphrase", "succeeded")
				}
			case 6, 7:
				checkSign()
			case 8:
				checkSignTx()
			case 9: // SignHashWithPassphrase
				hist = append(hist, "SignHashWithPassphrase")
				h := crypto.Keccak256([]byte(fmt.Sprint("hwp ", i, st)))
				want, _ := crypto.Sign(h, priv)
				if sig, err := ks.SignHashWithPassphrase(acc, pw, h); err != nil || string(sig) != string(want) {
					rec("Wr", map[bool]string{true: "bad", false: "err"}[err == nil])
					bad("signer-mismatch", "SignHashWithPassphrase differs from the stored key's signature", fmt.Sprintf("err %v", err))
				} else {
					rec("Wr", "ok")
				}
				_, ew := ks.SignHashWithPassphrase(acc, wrong(), h)
				rec("Ww", okErr(ew))
				if ew == nil {
					bad("wrong-pass-accepted", "SignHashWithPassphrase with another passphrase", "succeeded")
				}
			case 10: // Update
				np := genPass(rng, 1+rng.Intn(5))
				hist = append(hist, "Update")
				eu := ks.Update(acc, wrong(), np)
				rec("Pw", okErr(eu))
				if eu == nil {
					bad("wrong-pass-accepted", "Update with another passphrase", "succeeded")
				}
				eu = ks.Update(acc, pw, np)
				rec("Pr", okErr(eu))
				if eu != nil {
					bad("roundtrip", "Update with the right passphrase fails", eu.Error())
				} else {
					pw = np
				}
			case 11: // Export
				hist = append(hist, "Export")
				if js, err := ks.Export(acc, pw, "x"); err != nil {
					rec("Er", "err")
					bad("roundtrip", "Export with the right passphrase fails", err.Error())
				} else if out := decryptKey(js, "x"); out != "ok "+hex.EncodeToString(scalar)+" "+hexAddr {
					rec("Er", "bad")
					bad("roundtrip", "Export does not carry the stored key", out)
				} else {
					rec("Er", "ok")
				}
			}
			// a signature right after every state-changing operation
			if rng.Intn(2) == 0 {
				checkSign()
			}
		}
		checkSign()
		checkSignTx()
		// the whole history as one model case: Driver/C20 replays the ops with KsState.step and compares every observation
		run.Case("hist "+hex.EncodeToString(scalar)+" "+strings.Join(toks, ";"), strings.Join(obs, "|"))
		os.RemoveAll(dir)
		run.Count("history")
	}
}

// testVectors: the repo's own key-file vectors (testdata/testkeystore/v3_test_vector.json), incl. the 31- and 30-byte keys.
func testVectors(thorough bool) {
	repo := os.Getenv("VERIF_REPO")
	if repo == "" {
		repo = "/repo"
	}
	b, err := os.ReadFile(filepath.Join(repo, "testdata", "testkeystore", "v3_test_vector.json"))
	if err != nil {
		run.Count("testvectors:file-missing")
		return
	}
	var vs map[string]struct {
		JSON     json.RawMessage `json:"json"`
		Password string          `json:"password"`
		Priv     string          `json:"priv"`
	}
	if err := json.Unmarshal(b, &vs); err != nil {
		run.Count("testvectors:unparsable")
		return
	}
	names := make([]string, 0, len(vs))
	for k := range vs {
		names = append(names, k)
	}
	sort.Strings(names)
	for _, name := range names {
		v := vs[name]
		a := keystore.VerifAbstract(v.JSON)
		cost := asNum(a.KDFParams["n"]).v + asNum(a.KDFParams["c"]).v
		if cost > 8192 && !thorough {
			run.Count("testvectors:skipped-in-quick(expensive KDF)")
			continue
		}
		priv, err := hex.DecodeString(v.Priv)
		if err != nil {
			continue
		}
		sc, addr := addrOfScalar(priv) // a short `priv` is the key with its leading zero bytes stripped
		e := expect{"R", sc, addr}
		dkCase(origin{"bare DecryptKey (repo test vector " + name + ")", "v3", "", ""}, e, v.JSON, v.Password)
		importCase(origin{"KeyStore.Import (repo test vector " + name + ")", "v3", "", ""}, e, v.JSON, v.Password)
		run.Count("testvectors:" + name)
	}
}

// shortPlaintextCases: read side, legacy files written by clients that stripped the key's leading zero bytes: the plaintext
// is 31, 30 or 29 bytes.  Built by hand with the same KDF / AES / MAC construction, for every format, with and without the
// address member.  DecryptKey / Import / Unlock must return the ORIGINAL key and address.
func shortPlaintextCases(rng *hx.Rng, rounds int) {
	for i := 0; i < rounds; i++ {
		for _, f := range []string{"v3-scrypt", "v3-pbkdf2", "v1-scrypt", "v1-pbkdf2"} {
			for zeros := 1; zeros <= 3; zeros++ {
				scalar := genScalar(rng, zeros)
				_, addr := addrOfScalar(scalar)
				pw := genPass(rng, i+zeros)
				e := expect{"R", scalar, addr}
				for strip := 1; strip <= zeros; strip++ {
					pt := scalar[strip:]
					var js []byte
					kdf := strings.Split(f, "-")[1]
					if strings.HasPrefix(f, "v3") {
						js = buildV3pt(rng, kdf, pt, addr, pw)
					} else {
						js = buildV1pt(rng, kdf, pt, addr, pw)
					}
					for _, withAddr := range []bool{true, false} {
						j, tag := js, "with address"
						if !withAddr {
							j, tag = stripAddress(js), "without address"
						}
						what := fmt.Sprintf("%d-byte plaintext, %s", len(pt), tag)
						dkCase(origin{"bare DecryptKey (" + what + ")", f, "", ""}, e, j, pw)
						importCase(origin{"KeyStore.Import (" + what + ")", f, "", ""}, e, j, pw)
						if withAddr {
							gkCase(origin{"KeyStore.Unlock (" + what + ")", f, "", ""}, e, j, pw)
						}
						run.Count(fmt.Sprintf("short-plaintext:%d-bytes", len(pt)))
					}
				}
			}
		}
	}
}

// ---------------------------------------------------------------------------------------------------------------
// EncryptKey correspondence: the model recomputes the file from (key, passphrase, salt, iv, n, p) + oracle values

func encCase(rng *hx.Rng, zeros, passKind, n, p int) {
	scalar := genScalar(rng, zeros)
	pw := genPass(rng, passKind)
	k := mkKey(rng, scalar)
	run.Current("enc")
	js, err := keystore.EncryptKey(k, pw, n, p)
	if err != nil {
		violate("flow", "EncryptKey", map[string]interface{}{"key": hex.EncodeToString(scalar), "passphrase": pw}, err.Error())
		return
	}
	carriesAddress("EncryptKey", js, k.Address)
	a := keystore.VerifAbstract(js)
	salt, _ := hex.DecodeString(a.KDFParams["salt"].(string))
	iv, _ := hex.DecodeString(a.IV)
	or := strings.Fields(oracles(a, pw, nil))
	out := "ok " + absFields(a) + " " + hs(a.Id)
	run.Case(fmt.Sprintf("enc %s %s %s %s %s %s %d %d %s %s", hex.EncodeToString(scalar), hex.EncodeToString(k.Address[:]), hs(a.Id), hs(pw),
		hx.Hex(salt), hx.Hex(iv), n, p, or[0], or[1]), out)
	run.Count("enc")
}

func main() {
	run = hx.Start()
	log.Root().SetHandler(log.DiscardHandler())
	rng := hx.NewRng(run.Seed)
	run.Watch(120*time.Second, 3<<30, func(cur string) string { return "hang-or-oom " + cur })
	thorough := run.Thorough()
	t0 := time.Now()
	formats := []string{"v3-scrypt", "v3-pbkdf2", "v1-scrypt", "v1-pbkdf2"}

	// 1. KeyStore flows
	fr := rng.Fork(1)
	nflows := 24
	if thorough {
		nflows = 400
	}
	for i := 0; i < nflows; i++ {
		flow(fr, []int{0, 1, 2, 3, 0}[i%5], i, 2<<uint(i%3), 1+i%2, false)
	}
	nlight := 2
	if thorough {
		nlight = 12
	}
	for i := 0; i < nlight; i++ {
		flow(fr, 1+i%3, 3+i, keystore.LightScryptN, keystore.LightScryptP, true)
	}

	nsub := 6
	if thorough {
		nsub = 150
	}
	substitutionCases(rng.Fork(7), nsub)
	nupd, nconc := 1, 2
	if thorough {
		nupd, nconc = 20, 25
	}
	nh := 25
	if thorough {
		nh = 600
	}
	historyCases(rng.Fork(10), nh, 14)
	updateCases(rng.Fork(8), nupd, thorough)
	concurrentCases(rng.Fork(9), nconc, 6)
	run.Notes["t_flows_s"] = time.Since(t0).Seconds()
	// 2. tampering: every character of every field of base files of every format
	tr := rng.Fork(2)
	nb := 2
	if thorough {
		nb = 6
	}
	for i := 0; i < nb; i++ {
		for fi, f := range formats {
			b := mkBase(tr, f, (i+fi)%4, 1+i+fi, 2, 1)
			dkCase(origin{"bare DecryptKey", f, "", ""}, expect{"R", b.key, b.addr}, b.js, b.pw)
			gkCase(origin{"KeyStore.Unlock", f, "", ""}, expect{"R", b.key, b.addr}, b.js, b.pw)
			tamperBase(tr, b, thorough)
		}
	}
	// one realistic light-scrypt file (n=4096, p=6): the KDF parameter fields only (each call costs ~0.2 s)
	{
		b := mkBase(tr, "v3-scrypt", 2, 5, keystore.LightScryptN, keystore.LightScryptP)
		dkCase(origin{"bare DecryptKey", b.format, "", ""}, expect{"R", b.key, b.addr}, b.js, b.pw)
		e := expect{"T", b.key, b.addr}
		for _, sp := range spans(b.js) {
			if sp.isName || !strings.HasPrefix(sp.field, "kdfparams.") || sp.field == "kdfparams.salt" {
				continue
			}
			for pos := sp.start; pos < sp.end; pos++ {
				for _, r := range []byte("0-9") {
					if r == b.js[pos] {
						continue
					}
					t := append([]byte{}, b.js...)
					t[pos] = r
					run.Count("tamper-field:" + sp.field)
					dkCase(origin{"bare DecryptKey", b.format, strings.TrimPrefix(sp.field, "kdfparams."), sp.field + " altered to " + string(t[sp.start:sp.end])}, e, t, b.pw)
				}
			}
		}
	}

	run.Notes["t_tamper_s"] = time.Since(t0).Seconds()
	// 2b. the residual of the IV clause: key files WITHOUT an "address" field.  This keystore never writes such a file
	// (checked in every flow and for every EncryptKey output), so they are outside "a key stored under a passphrase";
	// bare DecryptKey has nothing to compare the decrypted key with.  Probed explicitly and reported as residual:* counts.
	rr := rng.Fork(5)
	for fi, f := range formats {
		b := mkBase(rr, f, fi%4, 1+fi, 2, 1)
		na := stripAddress(b.js)
		if keystore.VerifAbstract(na).Address != "" {
			panic("stripAddress failed")
		}
		dkCase(origin{"bare DecryptKey (file without address)", f, "", ""}, expect{"R", b.key, b.addr}, na, b.pw)
		eN := expect{"N", b.key, b.addr}
		for _, sp := range spans(na) {
			if sp.field != "iv" || sp.isName {
				continue
			}
			for pos := sp.start; pos < sp.end; pos++ {
				if !thorough && rr.Intn(4) != 0 {
					continue
				}
				t := append([]byte{}, na...)
				for t[pos] == na[pos] {
					t[pos] = hexLower[rr.Intn(16)]
				}
				out := dkCase(origin{"bare DecryptKey (file without address)", f, "iv", "iv altered"}, eN, t, b.pw)
				if strings.HasPrefix(out, "ok") && !strings.Contains(out, hex.EncodeToString(b.addr[:])) {
					run.Count("residual:file-without-address+IV-altered:bare-DecryptKey-yields-other-key")
				}
				importCase(origin{"KeyStore.Import (file without address)", f, "iv", "iv altered"}, eN, t, b.pw)
				gkCase(origin{"KeyStore.Unlock (file without address)", f, "iv", "iv altered"}, eN, t, b.pw) // never listed: no account to unlock
			}
		}
	}

	// 2c. read side: short plaintexts (keys written with their leading zero bytes stripped) and the repo's own vectors
	nshort := 1
	if thorough {
		nshort = 25
	}
	shortPlaintextCases(rng.Fork(6), nshort)
	testVectors(thorough)

	// 3. near-miss passphrases on every format
	pr := rng.Fork(3)
	np := 3
	if thorough {
		np = 30
	}
	for i := 0; i < np; i++ {
		for fi, f := range formats {
			b := mkBase(pr, f, (i+fi+1)%4, i+fi, 2, 1)
			dkCase(origin{"bare DecryptKey", f, "", ""}, expect{"R", b.key, b.addr}, b.js, b.pw)
			for _, w := range nearMiss(pr, b.pw, thorough) {
				dkCase(origin{"bare DecryptKey", f, "", ""}, expect{kind: "W"}, b.js, w)
				run.Count("near-miss-passphrases")
			}
		}
	}
	// informational: HMAC zero-pads its key, so "pw" and "pw\x00" are the same PBKDF2/scrypt input (see notes; not judged)
	{
		b := mkBase(pr, "v3-scrypt", 0, 5, 2, 1)
		if strings.HasPrefix(decryptKey(b.js, b.pw+"\x00"), "ok") {
			run.Count("info:passphrase-with-appended-NUL-unlocks(HMAC-zero-padding)")
		}
	}

	run.Notes["t_pass_s"] = time.Since(t0).Seconds()
	// 4. EncryptKey correspondence
	er := rng.Fork(4)
	ne := 60
	if thorough {
		ne = 3000
	}
	for i := 0; i < ne; i++ {
		encCase(er, i%4, i, 2<<uint(i%4), 1+i%3)
	}
	os.RemoveAll(filepath.Join(run.OutDir, "ks"))
	run.Finish()
}

// c07dump: prints the T-gen dump of core/vm for generator `vmflags` (property C07). Built by tools/gen_vmflags.py with
// `go build -overlay` injecting go/overlay/core/vm/dump_flags.go into the tree under test.
package main

import (
	"fmt"
	"os"

	"gitlab.com/aquachain/aquachain/core/vm"
)

func main() {
	s, err := vm.VerifC07DumpJSON()
	if err != nil {
		fmt.Fprintln(os.Stderr, "c07dump:", err)
		os.Exit(1)
	}
	fmt.Printf("VERIF-DUMP-BEGIN\n%s\nVERIF-DUMP-END\n", s)
}

// Package txlib: helpers shared by the C05 and C06 harnesses — tiny EVM assembler, chain-config variants, an in-memory
// world builder over the real core/state package, full-state dumps and a depth-0 tracer that observes what the EVM left
// behind when evm.Call / evm.Create return.
package txlib

import (
	"context"
	"fmt"
	"math/big"
	"sort"
	"strings"
	"time"

	"github.com/btcsuite/btcd/btcec/v2"
	"gitlab.com/aquachain/aquachain/aquadb"
	"gitlab.com/aquachain/aquachain/common"
	"gitlab.com/aquachain/aquachain/consensus/aquahash"
	"gitlab.com/aquachain/aquachain/core"
	"gitlab.com/aquachain/aquachain/core/state"
	"gitlab.com/aquachain/aquachain/core/vm"
	"gitlab.com/aquachain/aquachain/crypto"
	"gitlab.com/aquachain/aquachain/params"
)

// ---------------------------------------------------------------------------------------------------------------------
// assembler

type Asm struct{ b []byte }

func (a *Asm) Op(ops ...byte) *Asm { a.b = append(a.b, ops...); return a }

// Push pushes v with the shortest PUSHn (PUSH1 0 for zero).
func (a *Asm) Push(v *big.Int) *Asm {
	bs := v.Bytes()
	if len(bs) == 0 {
		bs = []byte{0}
	}
	if len(bs) > 32 {
		panic("push too wide")
	}
	a.b = append(a.b, byte(0x60+len(bs)-1))
	a.b = append(a.b, bs...)
	return a
}
func (a *Asm) PushU(v uint64) *Asm { return a.Push(new(big.Int).SetUint64(v)) }
func (a *Asm) PushAddr(x common.Address) *Asm {
	a.b = append(a.b, 0x73)
	a.b = append(a.b, x[:]...)
	return a
}
func (a *Asm) Bytes() []byte { return append([]byte{}, a.b...) }
func (a *Asm) Len() int      { return len(a.b) }

const (
	STOP         = 0x00
	ADD          = 0x01
	POP          = 0x50
	MSTORE       = 0x52
	SLOAD        = 0x54
	SSTORE       = 0x55
	JUMP         = 0x56
	JUMPDEST     = 0x5b
	GAS          = 0x5a
	LOG0         = 0xa0
	CREATE       = 0xf0
	CALL         = 0xf1
	CALLCODE     = 0xf2
	RETURN       = 0xf3
	DELEGATECALL = 0xf4
	STATICCALL   = 0xfa
	REVERT       = 0xfd
	INVALID      = 0xfe
	SELFDESTRUCT = 0xff
	CODECOPY     = 0x39
	DUP1         = 0x80
)

// ---------------------------------------------------------------------------------------------------------------------
// chain configurations

type Rules struct {
	Name      string
	Cfg       *params.ChainConfig
	Number    *big.Int
	Homestead bool
	EIP158    bool
	Byzantium bool
	HasRevert bool // REVERT/STATICCALL are valid opcodes (Byzantium or HF5 instruction set)
}

func b0() *big.Int { return big.NewInt(0) }

// Variants returns the rule sets the harnesses run under; every config is a private copy (never a built-in pointer).
func Variants() []Rules {
	mk := func(name string, hs, e150, e155, e158, byz *big.Int, hf params.ForkMap) Rules {
		c := &params.ChainConfig{ChainId: big.NewInt(1337), HomesteadBlock: hs, EIP150Block: e150, EIP155Block: e155, EIP158Block: e158,
			ByzantiumBlock: byz, Aquahash: new(params.AquahashConfig), HF: hf}
		n := big.NewInt(100)
		return Rules{Name: name, Cfg: c, Number: n, Homestead: c.IsHomestead(n), EIP158: c.IsEIP158(n), Byzantium: c.IsByzantium(n),
			HasRevert: c.IsByzantium(n) || c.IsHF(5, n)}
	}
	return []Rules{
		mk("frontier", nil, nil, nil, nil, nil, params.ForkMap{}),
		mk("homestead", b0(), b0(), nil, nil, nil, params.ForkMap{1: b0()}),
		mk("hf5", b0(), b0(), nil, nil, nil, params.ForkMap{1: b0(), 2: b0(), 3: b0(), 5: b0()}),
		mk("eip158", b0(), b0(), b0(), b0(), nil, params.ForkMap{1: b0(), 5: b0()}),
		mk("byzantium", b0(), b0(), b0(), b0(), b0(), params.ForkMap{1: b0(), 2: b0(), 3: b0(), 5: b0(), 6: b0(), 7: b0()}),
	}
}

// ---------------------------------------------------------------------------------------------------------------------
// keys / addresses

type Key struct {
	Priv *btcec.PrivateKey
	Addr common.Address
}

func NewKey(i int) Key {
	d := make([]byte, 32)
	d[0] = 0x11
	d[30] = 0x07
	d[31] = byte(i + 1)
	k := crypto.ToECDSAUnsafe(d)
	return Key{k, crypto.PubkeyToAddress(k.PubKey())}
}

func AddrN(n uint64) common.Address { return common.BigToAddress(new(big.Int).SetUint64(n)) }

// ---------------------------------------------------------------------------------------------------------------------
// world

func NewState() *state.StateDB {
	s, err := state.New(common.Hash{}, state.NewDatabase(aquadb.NewMemDatabase()))
	if err != nil {
		panic(err)
	}
	return s
}

// Settle commits the state and reopens it at the committed root (so that later dumps read a clean trie).
func Settle(s *state.StateDB, deleteEmpty bool) *state.StateDB {
	root, err := s.Commit(deleteEmpty)
	if err != nil {
		panic(err)
	}
	n, err := state.New(root, s.Database())
	if err != nil {
		panic(err)
	}
	return n
}

type Acct struct {
	Bal     *big.Int
	Nonce   uint64
	Code    string
	Storage map[string]string
}

// DumpAll returns the committed content of a COPY of s (s itself is not modified): every account of the state trie.
func DumpAll(s *state.StateDB, deleteEmpty bool) map[common.Address]Acct {
	cp := s.Copy()
	if _, err := cp.Commit(deleteEmpty); err != nil {
		panic(err)
	}
	d := cp.RawDump()
	out := map[common.Address]Acct{}
	for k, a := range d.Accounts {
		b, ok := new(big.Int).SetString(a.Balance, 10)
		if !ok {
			panic("bad balance in dump")
		}
		st := map[string]string{}
		for sk, sv := range a.Storage {
			st[sk] = sv
		}
		out[common.HexToAddress(k)] = Acct{Bal: b, Nonce: a.Nonce, Code: a.Code, Storage: st}
	}
	return out
}

func SumBalances(d map[common.Address]Acct) *big.Int {
	t := new(big.Int)
	for _, a := range d {
		t.Add(t, a.Bal)
	}
	return t
}

func (a Acct) IsEmpty() bool { return a.Nonce == 0 && a.Bal.Sign() == 0 && a.Code == "" }

func (a Acct) String() string {
	ks := make([]string, 0, len(a.Storage))
	for k, v := range a.Storage {
		ks = append(ks, k[len(k)-4:]+"="+v)
	}
	sort.Strings(ks)
	return fmt.Sprintf("{bal=%s nonce=%d code=%s st=[%s]}", a.Bal, a.Nonce, a.Code, strings.Join(ks, ","))
}

// DiffDumps lists the accounts whose content differs (sorted); with emptyIsAbsent an empty account equals a missing one.
func DiffDumps(before, after map[common.Address]Acct, emptyIsAbsent bool) []common.Address {
	seen := map[common.Address]bool{}
	var out []common.Address
	chk := func(k common.Address) {
		if seen[k] {
			return
		}
		seen[k] = true
		a, okA := before[k]
		b, okB := after[k]
		if emptyIsAbsent {
			if okA && a.IsEmpty() && len(a.Storage) == 0 {
				okA = false
			}
			if okB && b.IsEmpty() && len(b.Storage) == 0 {
				okB = false
			}
		}
		if okA != okB || (okA && a.String() != b.String()) {
			out = append(out, k)
		}
	}
	for k := range before {
		chk(k)
	}
	for k := range after {
		chk(k)
	}
	sort.Slice(out, func(i, j int) bool { return strings.Compare(out[i].Hex(), out[j].Hex()) < 0 })
	return out
}

// ---------------------------------------------------------------------------------------------------------------------
// tracer: observes the state at the moment evm.Call / evm.Create (depth 0) return, and counts interesting opcodes

type Obs struct {
	Fired    bool
	Create   bool
	GasGiven uint64
	GasLeft  uint64
	Err      error
	Refund   uint64 // refund counter when the depth-0 call returned
	RefundIn uint64 // refund counter when it started (must be 0: Finalise clears it between transactions)
	Bal      []*big.Int
	Nonce    []uint64
}

type Tracer struct {
	State   *state.StateDB
	Tracked []common.Address
	Cur     *Obs
	All     []*Obs
	// opcode statistics (all depths)
	Suicides     int
	SuicideSelf  int
	Creates      int
	Calls        int
	Faults       int
	ValueCalls   int
	OpSeen       map[byte]int
	SuicideAddrs []common.Address
}

func NewTracer(s *state.StateDB, tracked []common.Address) *Tracer {
	return &Tracer{State: s, Tracked: tracked, OpSeen: map[byte]int{}}
}

func (t *Tracer) Reset() { t.Cur = nil }

func (t *Tracer) CaptureStart(from common.Address, to common.Address, create bool, input []byte, gas uint64, value *big.Int) error {
	t.Cur = &Obs{Fired: true, Create: create, GasGiven: gas}
	if t.State != nil {
		t.Cur.RefundIn = t.State.GetRefund()
	}
	return nil
}

func (t *Tracer) CaptureState(env *vm.EVM, pc uint64, op vm.OpCode, gas, cost uint64, memory *vm.Memory, stack *vm.Stack, contract *vm.Contract, depth int, err error) error {
	b := byte(op)
	t.OpSeen[b]++
	switch b {
	case SELFDESTRUCT:
		if err == nil {
			t.Suicides++
			t.SuicideAddrs = append(t.SuicideAddrs, contract.Address())
			if len(stack.Data()) > 0 && common.BigToAddress(stack.Back(0)) == contract.Address() {
				t.SuicideSelf++
			}
		}
	case CREATE:
		t.Creates++
	case CALL, CALLCODE, DELEGATECALL, STATICCALL:
		t.Calls++
		if (b == CALL || b == CALLCODE) && len(stack.Data()) > 2 && stack.Back(2).Sign() != 0 {
			t.ValueCalls++
		}
	}
	return nil
}

func (t *Tracer) CaptureFault(env *vm.EVM, pc uint64, op vm.OpCode, gas, cost uint64, memory *vm.Memory, stack *vm.Stack, contract *vm.Contract, depth int, err error) error {
	t.Faults++
	return nil
}

func (t *Tracer) CaptureEnd(output []byte, gasUsed uint64, d time.Duration, err error) error {
	o := t.Cur
	if o == nil {
		o = &Obs{Fired: true}
		t.Cur = o
	}
	o.GasLeft = o.GasGiven - gasUsed
	o.Err = err
	o.Refund = t.State.GetRefund()
	for _, a := range t.Tracked {
		o.Bal = append(o.Bal, new(big.Int).Set(t.State.GetBalance(a)))
		o.Nonce = append(o.Nonce, t.State.GetNonce(a))
	}
	t.All = append(t.All, o)
	return nil
}

// ---------------------------------------------------------------------------------------------------------------------
// a real BlockChain (needed by StateProcessor.Process / engine.Finalize for chain.Config())

func NewChain(cfg *params.ChainConfig) (*core.BlockChain, aquadb.Database) {
	db := aquadb.NewMemDatabase()
	g := &core.Genesis{Config: cfg, GasLimit: 8000000, Difficulty: big.NewInt(1)}
	g.MustCommit(db)
	bc, err := core.NewBlockChain(context.Background(), db, nil, cfg, aquahash.NewFullFaker(), vm.Config{})
	if err != nil {
		panic(err)
	}
	return bc, db
}

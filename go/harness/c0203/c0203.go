// Package c0203 is the shared harness of properties C02 (the head is always a heaviest fully validated block) and
// C03 (the canonical index describes exactly the chain that ends at the head).
//
// It drives the REAL core.BlockChain / core.HeaderChain over random block trees built with the repository's own block
// builder (package chainx): random parent-closed arrival orders and batch splits, re-deliveries, non-contiguous batches,
// SetHead to random heights after reorganisations, Stop+reopen (pruning configuration: reaches the ErrPrunedAncestor
// side-chain branch of insertChain2), header-first imports on a second chain instance, archive and pruning cache configs.
//
// After EVERY call the abstract database state is read back through the public accessors and
//   (a) judged directly against the property statement (run.Violate), and
//   (b) appended to the history's case line; the Lean model driver replays the operations on Model.Chain with the
//       observed tie resolution and compares head / canonical index / lookups / td / stored blocks / state availability.
package c0203

import (
	"fmt"
	"math/big"
	"sort"
	"strings"
	"sync/atomic"
	"time"

	"gitlab.com/aquachain/aquachain/aquadb"
	"gitlab.com/aquachain/aquachain/common"
	"gitlab.com/aquachain/aquachain/consensus"
	"gitlab.com/aquachain/aquachain/core"
	"gitlab.com/aquachain/aquachain/core/types"
	"gitlab.com/aquachain/aquachain/core/vm"
	"verifharness/chainx"
	"verifharness/hx"
)

// Op is one call on the chain under test.
type Op struct {
	Kind byte   // 'I' InsertChain, 'H' InsertHeaderChain, 'S' SetHead, 'R' Stop + reopen
	IDs  []int  // tree node ids of the batch
	N    uint64 // SetHead target
}

func (o Op) String() string {
	switch o.Kind {
	case 'I', 'H':
		s := make([]string, len(o.IDs))
		for i, id := range o.IDs {
			s[i] = fmt.Sprint(id)
		}
		return string(o.Kind) + strings.Join(s, ".")
	case 'S':
		return fmt.Sprintf("S%d", o.N)
	}
	return "R"
}

type world struct {
	prop    string // "C02" | "C03"
	run     *hx.Run
	t       *chainx.Tree
	mode    string // archive | pruning | headers
	cache   *core.CacheConfig
	bc      *core.BlockChain
	db      aquadb.Database
	maxH    uint64
	valid   map[int]bool // blocks the chain has fully validated so far (seen stored with their state)
	given   map[int]bool // headers given so far (headers mode)
	lastTd  *big.Int
	hist    string // rendered history so far (replayable input of a violation)
	histID  string
	nViol   int
	imports bool // true while only imports (and reopens) happened since the start: C02's quantifier
	newHdrs   []int    // mixed mode: headers that the current InsertHeaderChain call has newly stored
	lastHdrTd *big.Int // mixed mode: total difficulty of the head header before the current operation
	noModel bool // history outside the model's scope (more than 128 blocks: trie garbage collection): judged directly only
	collect func(kind, what, detail string) // enumeration mode: violations go here instead of the run
	probeAll  bool // ask by hash before every import of this history
	probeSalt int
	lagged  bool // a rewind on the pruned node fell back below its target (block head below header head) earlier in this history
}

// ---- tree generation ------------------------------------------------------------------------------------------------

// buildTree grows a random tree of n blocks; `twins` percent of the steps add two or three siblings with the SAME
// timestamp offset (equal difficulty, hence an exact total-difficulty tie at equal height), and chains of such twins.
func buildTree(r *hx.Rng, n, branchy, twins int, race bool) *chainx.Tree {
	maxOff := int64(400)
	if race || r.Intn(3) == 0 {
		maxOff = 2000 // difficulty drops by up to 5% per block: a shorter branch can be heavier within a few blocks
	}
	t := chainx.NewTree(chainx.Opts{WithTxs: true, MinOffset: -9, MaxOffset: maxOff, ForkFree: true})
	min, max := t.Opts.MinOffset, t.Opts.MaxOffset
	if race {
		// a slow (light) long branch and a fast (heavy) shorter branch from a common fork point
		fork := 0
		for i := r.Intn(3); i > 0; i-- {
			fork = t.AddChild(r, fork).ID
		}
		long := 7 + r.Intn(3)
		a, b := fork, fork
		t.Opts.MinOffset, t.Opts.MaxOffset = 1500, 2000
		for i := 0; i < long; i++ {
			a = t.AddChild(r, a).ID
		}
		t.Opts.MinOffset, t.Opts.MaxOffset = -9, 0
		for i := 0; i < long-1 && t.Td(b).Cmp(t.Td(a)) <= 0; i++ { // stop as soon as the shorter branch is heavier
			b = t.AddChild(r, b).ID
		}
		t.Opts.MinOffset, t.Opts.MaxOffset = min, max
		n += len(t.Nodes) - 1
	}
	for len(t.Nodes)-1 < n {
		if r.Intn(100) < twins {
			parent := r.Intn(len(t.Nodes))
			off := min + int64(r.Intn(int(max-min)))
			k := 2 + r.Intn(2)
			var kids []int
			t.Opts.MinOffset, t.Opts.MaxOffset = off, off+1
			for i := 0; i < k && len(t.Nodes)-1 < n; i++ {
				kids = append(kids, t.AddChild(r, parent).ID)
			}
			// sometimes continue both twins with equal offsets again (equal TD at equal height, deeper)
			if len(kids) >= 2 && r.Intn(2) == 0 && len(t.Nodes)-1+2 <= n {
				off2 := min + int64(r.Intn(int(max-min)))
				t.Opts.MinOffset, t.Opts.MaxOffset = off2, off2+1
				t.AddChild(r, kids[0])
				t.AddChild(r, kids[1])
			}
			t.Opts.MinOffset, t.Opts.MaxOffset = min, max
		} else {
			t.Grow(r, 1, branchy)
		}
	}
	return t
}

func pathIDs(t *chainx.Tree, id int) []int {
	var rev []int
	for n := t.Nodes[id]; n.Parent >= 0; n = t.Nodes[n.Parent] {
		rev = append(rev, n.ID)
	}
	for i, j := 0, len(rev)-1; i < j; i, j = i+1, j-1 {
		rev[i], rev[j] = rev[j], rev[i]
	}
	return rev
}

// genOps: a random parent-closed linearisation of (most of) the tree, split into batches, interleaved with the other
// operations of the mode.
func genOps(r *hx.Rng, t *chainx.Tree, prop, mode string) []Op {
	order := t.ParentClosedOrder(r)
	if r.Intn(4) == 0 && len(order) > 4 { // a parent-closed subset
		order = order[:len(order)-r.Intn(len(order)/3+1)]
	}
	kind := byte('I')
	if mode == "headers" {
		kind = 'H'
	}
	maxH := uint64(0)
	for _, n := range t.Nodes {
		if n.Block.NumberU64() > maxH {
			maxH = n.Block.NumberU64()
		}
	}
	var ops []Op
	var done [][]int
	pSet, pRe, pOpen, pPath, pJunk := 0, 12, 0, 8, 4
	if prop == "C03" {
		pSet = 18
	}
	if mode == "pruning" {
		pOpen = 22
	} else if mode == "archive" {
		pOpen = 4
	}
	for _, b := range t.Batches(r, order) {
		ops = append(ops, Op{Kind: kind, IDs: b})
		done = append(done, b)
		if r.Intn(100) < pOpen {
			ops = append(ops, Op{Kind: 'R'})
		}
		if r.Intn(100) < pSet {
			if mode == "pruning" && r.Intn(3) == 0 { // restart first: the rewind is then likely to land on a block without state
				ops = append(ops, Op{Kind: 'R'})
			}
			n1 := uint64(r.Intn(int(maxH) + 2))
			ops = append(ops, Op{Kind: 'S', N: n1})
			switch r.Intn(4) {
			case 0: // a second, deeper rewind right away (the block head may lag behind the header head by now)
				ops = append(ops, Op{Kind: 'S', N: uint64(r.Intn(int(n1) + 1))})
			case 1: // rewind, import, rewind again
				ops = append(ops, Op{Kind: kind, IDs: pathIDs(t, 1+r.Intn(len(t.Nodes)-1))}, Op{Kind: 'S', N: uint64(r.Intn(int(n1) + 1))})
			}
			if r.Intn(2) == 0 { // give the chain of some node again (re-import after the rewind)
				ops = append(ops, Op{Kind: kind, IDs: pathIDs(t, 1+r.Intn(len(t.Nodes)-1))})
			}
		}
		if r.Intn(100) < pRe { // deliver an earlier batch again
			ops = append(ops, Op{Kind: kind, IDs: done[r.Intn(len(done))]})
		}
		if r.Intn(100) < pPath { // whole ancestry of a random node in one batch (known blocks are skipped)
			ops = append(ops, Op{Kind: kind, IDs: pathIDs(t, 1+r.Intn(len(t.Nodes)-1))})
		}
		if r.Intn(100) < pJunk && len(done) >= 2 { // non-contiguous batch
			a, c := done[r.Intn(len(done))], done[r.Intn(len(done))]
			ops = append(ops, Op{Kind: kind, IDs: append(append([]int{}, a...), c...)})
		}
	}
	if prop == "C03" && r.Intn(3) == 0 {
		ops = append(ops, Op{Kind: 'S', N: uint64(r.Intn(int(maxH) + 1))})
		for _, b := range t.Batches(r, t.ParentClosedOrder(r)) {
			ops = append(ops, Op{Kind: kind, IDs: b})
		}
	}
	return ops
}

// genMixedOps: one chain instance fed through BOTH import paths: every batch goes in either as blocks (InsertChain) or as
// bare headers (InsertHeaderChain); earlier batches come again through either path.
func genMixedOps(r *hx.Rng, t *chainx.Tree) []Op {
	kinds := []byte{'I', 'H'}
	var ops []Op
	var done [][]int
	asBlock := map[int]bool{0: true}
	// the (most likely) block head: the heaviest node whose whole ancestry went in as blocks
	blockHead := func() int {
		best := 0
		for _, n := range t.Nodes {
			ok := asBlock[n.ID]
			for a := n; ok && a.Parent >= 0; a = t.Nodes[a.Parent] {
				ok = asBlock[a.Parent]
			}
			if ok && t.Td(n.ID).Cmp(t.Td(best)) > 0 {
				best = n.ID
			}
		}
		return best
	}
	for _, b := range t.Batches(r, t.ParentClosedOrder(r)) {
		k := kinds[r.Intn(2)]
		ops = append(ops, Op{Kind: k, IDs: b})
		if k == 'I' {
			for _, id := range b {
				asBlock[id] = true
			}
		}
		done = append(done, b)
		if k == 'H' && r.Intn(100) < 40 {
			// after a header import (which may have re-routed or shortened the number index): new blocks on top of the
			// current BLOCK head (the tree grows here; it is rendered after the operations are generated)
			tip := blockHead()
			var ext []int
			for i := 1 + r.Intn(3); i > 0; i-- {
				tip = t.AddChild(r, tip).ID
				ext = append(ext, tip)
				asBlock[tip] = true
			}
			ops = append(ops, Op{Kind: 'I', IDs: ext})
		}
		if r.Intn(100) < 30 {
			ops = append(ops, Op{Kind: kinds[r.Intn(2)], IDs: done[r.Intn(len(done))]})
		}
		if r.Intn(100) < 12 {
			ops = append(ops, Op{Kind: kinds[r.Intn(2)], IDs: pathIDs(t, 1+r.Intn(len(t.Nodes)-1))})
		}
	}
	if r.Intn(2) == 0 { // everything once more as blocks
		for _, b := range t.Batches(r, t.ParentClosedOrder(r)) {
			ops = append(ops, Op{Kind: 'I', IDs: b})
		}
	}
	return ops
}

// directedMixed: full blocks of a heavy main chain first, then bare headers of a strictly LIGHTER fork, of an equally
// heavy twin of the tip and of a HEAVIER fork (and the variants headers-first / interleaved).
func directedMixed(r *hx.Rng, variant int) (*chainx.Tree, []Op) {
	if variant >= 6 {
		return directedShorterHeaderFork(r, variant)
	}
	t := chainx.NewTree(chainx.Opts{WithTxs: true, MinOffset: -9, MaxOffset: 0, ForkFree: true})
	var main []int
	tip := 0
	for i := 0; i < 6+r.Intn(3); i++ {
		tip = t.AddChild(r, tip).ID
		main = append(main, tip)
	}
	// lighter fork from the second block: heavier than the fork point, lighter than the main tip
	t.Opts.MinOffset, t.Opts.MaxOffset = 1500, 2000
	var light []int
	lt := main[1]
	for i := 0; i < 3+r.Intn(2); i++ {
		lt = t.AddChild(r, lt).ID
		light = append(light, lt)
	}
	// twin of the main tip (same offset => equal total difficulty)
	t.Opts.MinOffset, t.Opts.MaxOffset = -5, -4
	twinA := t.AddChild(r, tip).ID
	twinB := t.AddChild(r, tip).ID
	// heavier fork: continues beyond the twins
	t.Opts.MinOffset, t.Opts.MaxOffset = -9, 0
	heavy := []int{twinB, t.AddChild(r, twinB).ID}
	var ops []Op
	switch variant % 3 {
	case 0: // blocks, then header forks
		ops = []Op{{Kind: 'I', IDs: main}, {Kind: 'H', IDs: light}, {Kind: 'I', IDs: []int{twinA}}, {Kind: 'H', IDs: heavy[:1]},
			{Kind: 'H', IDs: heavy[1:]}, {Kind: 'I', IDs: heavy}, {Kind: 'H', IDs: light}}
	case 1: // headers first, blocks follow, then the lighter header fork
		ops = []Op{{Kind: 'H', IDs: main[:3]}, {Kind: 'I', IDs: main}, {Kind: 'H', IDs: light[:2]}, {Kind: 'H', IDs: light[2:]},
			{Kind: 'H', IDs: []int{twinA}}, {Kind: 'I', IDs: []int{twinA}}, {Kind: 'H', IDs: heavy}}
	default: // interleaved
		ops = []Op{{Kind: 'I', IDs: main[:2]}, {Kind: 'H', IDs: light[:1]}, {Kind: 'I', IDs: main[2:]}, {Kind: 'H', IDs: light[1:]},
			{Kind: 'I', IDs: light}, {Kind: 'H', IDs: []int{twinA}}, {Kind: 'H', IDs: heavy}, {Kind: 'I', IDs: []int{twinA}}}
	}
	return t, ops
}

// directedShorterHeaderFork: a long light chain goes in as BLOCKS, then a SHORTER but heavier sibling branch as bare headers
// (WriteHeader re-routes the number index to it and unmaps the heights above its tip), then the block chain is extended on
// top of the old block head: `insert` has to re-point every height below the new block down to the fork point, across the
// unmapped heights.
func directedShorterHeaderFork(r *hx.Rng, variant int) (*chainx.Tree, []Op) {
	t := chainx.NewTree(chainx.Opts{WithTxs: true, MinOffset: 1500, MaxOffset: 2000, ForkFree: true})
	fork := 0
	var pre []int
	for i := r.Intn(3); i > 0; i-- {
		fork = t.AddChild(r, fork).ID
		pre = append(pre, fork)
	}
	a, b := fork, fork
	var long, short, ext []int
	for i := 0; i < 14+r.Intn(3); i++ { // long enough for the fast branch to overtake it while still 2–3 blocks shorter
		a = t.AddChild(r, a).ID
		long = append(long, a)
	}
	t.Opts.MinOffset, t.Opts.MaxOffset = -9, 0
	for i := 0; i < len(long)-1 && t.Td(b).Cmp(t.Td(a)) <= 0; i++ {
		b = t.AddChild(r, b).ID
		short = append(short, b)
	}
	t.Opts.MinOffset, t.Opts.MaxOffset = 1500, 2000
	for i := 0; i < 3; i++ {
		a = t.AddChild(r, a).ID
		ext = append(ext, a)
	}
	blocks := append(append([]int{}, pre...), long...)
	var ops []Op
	switch variant % 3 {
	case 0: // blocks, shorter heavier header fork, one more block, then two more
		ops = []Op{{Kind: 'I', IDs: blocks}, {Kind: 'H', IDs: short}, {Kind: 'I', IDs: ext[:1]}, {Kind: 'I', IDs: ext[1:]}}
	case 1: // the header fork arrives in two batches, a block after each; finally the blocks of the fork follow
		h := len(short) / 2
		ops = []Op{{Kind: 'I', IDs: blocks}, {Kind: 'H', IDs: short[:h]}, {Kind: 'I', IDs: ext[:1]}, {Kind: 'H', IDs: short},
			{Kind: 'I', IDs: ext[1:2]}, {Kind: 'I', IDs: short}, {Kind: 'I', IDs: ext[2:]}}
	default: // the whole extension in one batch, then the header fork again (known) and as blocks
		ops = []Op{{Kind: 'I', IDs: blocks}, {Kind: 'H', IDs: short}, {Kind: 'I', IDs: ext}, {Kind: 'H', IDs: short}, {Kind: 'I', IDs: short}}
	}
	return t, ops
}

// ---- rendering ------------------------------------------------------------------------------------------------------

func renderTree(t *chainx.Tree) string {
	var sb strings.Builder
	for i, n := range t.Nodes {
		if i > 0 {
			sb.WriteByte('|')
		}
		txs := make([]string, len(n.TxIDs))
		for j, x := range n.TxIDs {
			txs[j] = fmt.Sprint(x)
		}
		p := n.Parent
		if p < 0 {
			p = 0
		}
		fmt.Fprintf(&sb, "%d:%d:%d:%s:%s", n.ID, p, n.Block.NumberU64(), n.Block.Difficulty(), strings.Join(txs, "."))
	}
	return sb.String()
}

func (w *world) idOf(h common.Hash) string {
	if h == (common.Hash{}) {
		return "-"
	}
	if id, ok := w.t.ByHash[h]; ok {
		return fmt.Sprint(id)
	}
	return "?"
}

func errClass(err error) string {
	switch {
	case err == nil:
		return "ok"
	case err == consensus.ErrUnknownAncestor:
		return "unknown-ancestor"
	case err == consensus.ErrPrunedAncestor:
		return "pruned-ancestor"
	case err == core.ErrKnownBlock:
		return "known"
	}
	s := err.Error()
	switch {
	case strings.Contains(s, "nil grandparent"):
		return "unknown-grandparent"
	case strings.Contains(s, "missing trie node"):
		return "missing-state"
	case strings.Contains(s, "invalid new chain"), strings.Contains(s, "invalid old chain"):
		return "reorg-fail"
	case strings.Contains(s, "non contiguous insert"):
		return "non-contiguous"
	case strings.Contains(s, "no chain to insert"):
		return "empty"
	}
	s = strings.Map(func(r rune) rune {
		if r == ' ' || r == '\t' || r == '\n' || r == ';' || r == '/' {
			return '_'
		}
		return r
	}, s)
	if len(s) > 60 {
		s = s[:60]
	}
	return "other:" + s
}

// dump reads the abstract database state back through the public accessors.
func (w *world) dump(res string) string {
	t, bc, db := w.t, w.bc, w.db
	var sb strings.Builder
	fmt.Fprintf(&sb, "e=%s/h=%s/hh=%s/fh=%s/c=", res, w.idOf(bc.CurrentBlock().Hash()), w.idOf(bc.CurrentHeader().Hash()), w.idOf(bc.CurrentFastBlock().Hash()))
	for n := uint64(0); n <= w.maxH+2; n++ {
		if n > 0 {
			sb.WriteByte('.')
		}
		sb.WriteString(w.idOf(core.GetCanonicalHash(db, n)))
	}
	var td, st, rc, sa, od, lk, bk []string
	for _, nd := range t.Nodes {
		h, num := nd.Block.Hash(), nd.Block.NumberU64()
		if x := bc.GetTd(h, num); x != nil {
			td = append(td, fmt.Sprintf("%d:%s", nd.ID, x))
		}
		if w.mode == "headers" || w.mode == "mixed" {
			if bc.GetHeader(h, num) != nil {
				st = append(st, fmt.Sprint(nd.ID))
			}
			if w.mode == "mixed" && bc.GetBlock(h, num) != nil {
				bk = append(bk, fmt.Sprint(nd.ID))
			}
		} else {
			hasH, hasB := bc.GetHeader(h, num) != nil, core.GetBodyNoVersion(db, h, num) != nil
			if hasH && hasB {
				st = append(st, fmt.Sprint(nd.ID))
			} else if hasH != hasB {
				st = append(st, fmt.Sprintf("%d!h%vb%v", nd.ID, hasH, hasB)) // never produced by the model
			}
		}
		if core.GetBlockReceipts(db, h, num) != nil {
			rc = append(rc, fmt.Sprint(nd.ID))
		}
		if bc.HasState(nd.Block.Root()) {
			sa = append(sa, fmt.Sprint(nd.ID))
		}
		if ok, _ := db.Has(nd.Block.Root().Bytes()); ok { // root node of the state trie flushed to the database
			od = append(od, fmt.Sprint(nd.ID))
		}
	}
	for i, tx := range t.Txs {
		bh, bn, ix := core.GetTxLookupEntry(db, tx.Hash())
		if bh != (common.Hash{}) {
			lk = append(lk, fmt.Sprintf("%d:%s:%d:%d", i, w.idOf(bh), bn, ix))
		}
	}
	fmt.Fprintf(&sb, "/td=%s/lk=%s/st=%s/rc=%s/sa=%s/od=%s", strings.Join(td, ","), strings.Join(lk, ","), strings.Join(st, "."), strings.Join(rc, "."), strings.Join(sa, "."), strings.Join(od, "."))
	if w.mode == "mixed" {
		fmt.Fprintf(&sb, "/bk=%s", strings.Join(bk, "."))
	}
	return sb.String()
}

// ---- direct Spec judgement --------------------------------------------------------------------------------------------

func (w *world) violate(kind, what, detail string) {
	if w.collect != nil {
		w.collect(kind, what, detail)
		return
	}
	w.nViol++
	if w.nViol > 3 { // one history: report the first few only
		return
	}
	ctx := ""
	if w.lagged {
		ctx = "after-stateless-rewind:"
	}
	w.run.Violate(kind, w.prop+":"+w.mode+":"+ctx+what, w.hist, detail)
}

// judgeC03Mixed: C03 on ONE chain fed through both import paths. The head is defined as the statement says: the header
// head for the number index (it is the one ahead in header-first use), the block head for what only full imports provide
// (bodies, receipts, lookups).
func (w *world) judgeC03Mixed(op Op) {
	t, bc, db := w.t, w.bc, w.db
	hh := bc.CurrentHeader()
	hid, ok := t.ByHash[hh.Hash()]
	if !ok {
		w.violate("c03-head", "head-unknown", "head header is not a block of the tree")
		return
	}
	headNum := hh.Number.Uint64()
	// number index = ancestry of the header head, nothing above
	for n := uint64(0); n <= headNum; n++ {
		want := t.Ancestor(hid, n)
		if got := core.GetCanonicalHash(db, n); got != t.Nodes[want].Block.Hash() {
			shape := "entry-of-other-branch" // (before 3f14ce8: insert extended a block head whose own chain the index no longer describes)
			if got == (common.Hash{}) {
				shape = "entry-missing" // (before 3f14ce8: reorg's clean-up loop deleted entries of the header chain above the new block head)
			}
			w.violate("c03-canon-below", "canon-below-head-wrong:"+shape, fmt.Sprintf("after %s: header head %d (#%d): number %d maps to %s, want ancestor %d", op, hid, headNum, n, w.idOf(got), want))
			break
		}
	}
	for n := headNum + 1; n <= w.maxH+3; n++ {
		if got := core.GetCanonicalHash(db, n); got != (common.Hash{}) {
			w.violate("c03-canon-above", "canon-above-head", fmt.Sprintf("after %s: header head %d (#%d) but number %d still maps to block %s", op, hid, headNum, n, w.idOf(got)))
			break
		}
	}
	// the block head lies on the header chain
	bh := bc.CurrentBlock()
	bid := t.ByHash[bh.Hash()]
	// Header-first use: a heavier header fork may run ahead on another branch than the blocks imported so far (the bodies
	// follow later). That state is legitimate; the number index is then judged against the header head (above) and what
	// only full imports provide against the chain of the block head (below). Only counted.
	if bh.NumberU64() > headNum || t.Ancestor(hid, bh.NumberU64()) != bid {
		if w.collect != nil {
			w.collect("state", "block-head-not-on-header-chain", fmt.Sprintf("after %s: block head %d (#%d) off the chain of header head %d (#%d)", op, bid, bh.NumberU64(), hid, headNum))
		} else {
			w.run.Count("state:mixed-block-head-off-the-header-chain")
		}
	}
	// header, body, receipts, td for the chain that ends at the block head; lookups exactly its transactions
	type pos struct{ blk, idx int }
	want := map[int]pos{}
	for n := uint64(0); n <= bh.NumberU64(); n++ {
		a := t.Ancestor(bid, n)
		nd := t.Nodes[a]
		ah := nd.Block.Hash()
		if bc.GetHeader(ah, n) == nil || bc.GetBody(ah) == nil || bc.GetTd(ah, n) == nil {
			w.violate("c03-retrieve", "header-or-body-missing", fmt.Sprintf("after %s: header/body/td of block %d (#%d) on the chain of the block head not retrievable", op, a, n))
		}
		if rs := bc.GetReceiptsByHash(ah); rs == nil || len(rs) != len(nd.Block.Transactions()) {
			w.violate("c03-retrieve", "receipts-missing", fmt.Sprintf("after %s: receipts of block %d (#%d)", op, a, n))
		}
		for i, x := range nd.TxIDs {
			want[x] = pos{a, i}
		}
	}
	for i, tx := range t.Txs {
		lh, ln, li := core.GetTxLookupEntry(db, tx.Hash())
		p, canonical := want[i]
		if !canonical {
			if lh != (common.Hash{}) {
				w.violate("c03-lookup-stale", "lookup-resolves-noncanonical-tx", fmt.Sprintf("after %s: tx %d is in no block of the chain of block head %d but its lookup resolves to block %s #%d idx %d", op, i, bid, w.idOf(lh), ln, li))
			}
			continue
		}
		nd := t.Nodes[p.blk]
		if lh != nd.Block.Hash() || ln != nd.Block.NumberU64() || li != uint64(p.idx) {
			w.violate("c03-lookup-missing", "lookup-wrong-or-missing", fmt.Sprintf("after %s: tx %d is tx %d of block %d on the chain of the block head but lookup gives block %s #%d idx %d", op, i, p.idx, p.blk, w.idOf(lh), ln, li))
		}
	}
}

// judgeC03 evaluates the statement of C03 on the real chain (at rest, after an operation).
func (w *world) judgeC03(op Op) {
	if w.mode == "mixed" {
		w.judgeC03Mixed(op)
		return
	}
	t, bc, db := w.t, w.bc, w.db
	// The index head is the header head. For a chain fed by full imports it coincides with the block head; a rewind on a
	// pruned node may legitimately leave the block head BELOW it (SetHead falls back to the last block whose state is
	// available): this is the header-first situation of the statement. The block head must then lie on the header chain,
	// and the retrievability clause is demanded up to the block head.
	headHash, headNum := bc.CurrentHeader().Hash(), bc.CurrentHeader().Number.Uint64()
	hid, ok := t.ByHash[headHash]
	if !ok {
		w.violate("c03-head", "head-unknown", fmt.Sprintf("after %s: head %x is not a block of the tree", op, headHash[:4]))
		return
	}
	blockNum := uint64(0)
	if w.mode != "headers" {
		bh := bc.CurrentBlock()
		blockNum = bh.NumberU64()
		bid, ok := t.ByHash[bh.Hash()]
		if !ok || blockNum > headNum || t.Ancestor(hid, blockNum) != bid {
			w.violate("c03-heads", "block-head-not-on-header-chain", fmt.Sprintf("after %s: block head %s (#%d) is not an ancestor of the header head %d (#%d)", op, w.idOf(bh.Hash()), blockNum, hid, headNum))
			return
		}
		if blockNum < headNum {
			w.lagged = true
			w.run.Count("state:block-head-below-header-head")
			if w.imports || w.mode == "archive" {
				w.violate("c03-heads", "block-head-lags-without-pruned-rewind", fmt.Sprintf("after %s: block head #%d below header head #%d", op, blockNum, headNum))
			}
		}
		if fh := bc.CurrentFastBlock(); fh.NumberU64() > headNum || t.Ancestor(hid, fh.NumberU64()) != t.ByHash[fh.Hash()] {
			w.violate("c03-heads", "fast-head-not-on-header-chain", fmt.Sprintf("after %s: fast head %s not an ancestor of the header head %d", op, w.idOf(fh.Hash()), hid))
		}
	}
	canonAt := map[uint64]int{}
	// every height up to the head maps to the head's ancestor at that height
	for n := uint64(0); n <= headNum; n++ {
		want := t.Ancestor(hid, n)
		canonAt[n] = want
		wh := t.Nodes[want].Block.Hash()
		if got := core.GetCanonicalHash(db, n); got != wh {
			w.violate("c03-canon-below", "canon-below-head-wrong", fmt.Sprintf("after %s: head %d (#%d): number %d maps to %s, want ancestor %d", op, hid, headNum, n, w.idOf(got), want))
			continue
		}
		if hd := bc.GetHeaderByNumber(n); hd == nil || hd.Hash() != wh {
			w.violate("c03-retrieve", "header-by-number", fmt.Sprintf("after %s: GetHeaderByNumber(%d) does not return block %d", op, n, want))
		}
		if bc.GetTd(wh, n) == nil {
			w.violate("c03-retrieve", "td-missing", fmt.Sprintf("after %s: GetTd of canonical block %d (#%d) is nil", op, want, n))
		}
		if w.mode == "headers" || n > blockNum {
			continue
		}
		blk := bc.GetBlockByNumber(n)
		if blk == nil || blk.Hash() != wh {
			w.violate("c03-retrieve", "block-by-number", fmt.Sprintf("after %s: GetBlockByNumber(%d) does not return block %d", op, n, want))
		}
		if bc.GetHeader(wh, n) == nil || bc.GetBody(wh) == nil || bc.GetBlock(wh, n) == nil {
			w.violate("c03-retrieve", "header-or-body-missing", fmt.Sprintf("after %s: header/body of canonical block %d (#%d) not retrievable", op, want, n))
		}
		rs := bc.GetReceiptsByHash(wh)
		if rs == nil || len(rs) != len(t.Nodes[want].Block.Transactions()) {
			w.violate("c03-retrieve", "receipts-missing", fmt.Sprintf("after %s: receipts of canonical block %d (#%d): got %d want %d", op, want, n, len(rs), len(t.Nodes[want].Block.Transactions())))
		}
	}
	// no greater height maps to anything
	for n := headNum + 1; n <= w.maxH+3; n++ {
		if got := core.GetCanonicalHash(db, n); got != (common.Hash{}) {
			w.violate("c03-canon-above", "canon-above-head", fmt.Sprintf("after %s: head %d (#%d) but number %d still maps to block %s", op, hid, headNum, n, w.idOf(got)))
			continue
		}
		if bc.GetBlockByNumber(n) != nil || bc.GetHeaderByNumber(n) != nil {
			w.violate("c03-canon-above", "by-number-above-head", fmt.Sprintf("after %s: Get*ByNumber(%d) resolves above head #%d", op, n, headNum))
		}
	}
	// a transaction lookup resolves iff the transaction is contained in a canonical block, and then points at it
	type pos struct {
		blk int
		idx int
	}
	want := map[int]pos{}
	if w.mode != "headers" {
		for n := uint64(0); n <= headNum; n++ {
			nd := t.Nodes[canonAt[n]]
			if n > blockNum && core.GetBodyNoVersion(db, nd.Block.Hash(), n) == nil {
				continue // header-first part of the chain: no body, so nothing to resolve
			}
			for i, x := range nd.TxIDs {
				if _, dup := want[x]; dup {
					w.violate("c03-gen", "tx-twice-on-one-chain", fmt.Sprintf("generator: tx %d twice on the chain of %d", x, hid))
				}
				want[x] = pos{nd.ID, i}
			}
		}
	}
	for i, tx := range t.Txs {
		bh, bn, ix := core.GetTxLookupEntry(db, tx.Hash())
		p, canonical := want[i]
		gtx, gh, gn, gi := core.GetTransaction(db, tx.Hash())
		rcpt, rh, rn, ri := core.GetReceipt(db, tx.Hash())
		if !canonical {
			if bh != (common.Hash{}) || gtx != nil || rcpt != nil {
				w.violate("c03-lookup-stale", "lookup-resolves-noncanonical-tx", fmt.Sprintf("after %s: tx %d is in no canonical block (head %d #%d) but its lookup resolves to block %s #%d idx %d (GetTransaction=%v GetReceipt=%v)", op, i, hid, headNum, w.idOf(bh), bn, ix, gtx != nil, rcpt != nil))
			}
			continue
		}
		nd := t.Nodes[p.blk]
		wh, wn := nd.Block.Hash(), nd.Block.NumberU64()
		if bh != wh || bn != wn || ix != uint64(p.idx) {
			w.violate("c03-lookup-missing", "lookup-wrong-or-missing", fmt.Sprintf("after %s: tx %d is tx %d of canonical block %d (#%d) but lookup gives block %s #%d idx %d", op, i, p.idx, p.blk, wn, w.idOf(bh), bn, ix))
			continue
		}
		if gtx == nil || gtx.Hash() != tx.Hash() || gh != wh || gn != wn || gi != uint64(p.idx) {
			w.violate("c03-lookup-missing", "get-transaction", fmt.Sprintf("after %s: GetTransaction(tx %d) does not return the transaction at block %d idx %d", op, i, p.blk, p.idx))
		}
		if rcpt == nil || rh != wh || rn != wn || ri != uint64(p.idx) || rcpt.TxHash != tx.Hash() {
			w.violate("c03-lookup-missing", "get-receipt", fmt.Sprintf("after %s: GetReceipt(tx %d) does not return the receipt at block %d idx %d", op, i, p.blk, p.idx))
		}
	}
}

// judgeC02 evaluates the statement of C02 (TD recurrence for every stored block; head TD maximal among the fully validated
// blocks given so far, exact ties either way; head TD monotone over imports).
func (w *world) judgeC02(op Op) {
	t, bc := w.t, w.bc
	tdOf := func(id int) *big.Int { return bc.GetTd(t.Nodes[id].Block.Hash(), t.Nodes[id].Block.NumberU64()) }
	// recurrence for every stored block
	for _, nd := range t.Nodes {
		h, num := nd.Block.Hash(), nd.Block.NumberU64()
		if bc.GetHeader(h, num) == nil {
			continue
		}
		td := tdOf(nd.ID)
		if td == nil {
			w.violate("c02-td", "stored-block-without-td", fmt.Sprintf("after %s: block %d is stored but has no total difficulty", op, nd.ID))
			continue
		}
		if nd.Parent < 0 {
			if td.Cmp(nd.Block.Difficulty()) != 0 {
				w.violate("c02-td", "genesis-td", fmt.Sprintf("genesis td %s != difficulty %s", td, nd.Block.Difficulty()))
			}
			continue
		}
		ptd := tdOf(nd.Parent)
		if ptd == nil {
			if w.imports {
				w.violate("c02-td", "parent-td-missing", fmt.Sprintf("after %s: block %d stored, parent %d has no td", op, nd.ID, nd.Parent))
			}
			// after a rewind the parent may have been removed: the recurrence is then judged against the builder's value
			ptd = t.Td(nd.Parent)
		}
		if want := new(big.Int).Add(ptd, nd.Block.Difficulty()); td.Cmp(want) != 0 {
			w.violate("c02-td", "td-recurrence", fmt.Sprintf("after %s: td(%d)=%s but td(parent %d)+difficulty=%s", op, nd.ID, td, nd.Parent, want))
		}
	}
	if w.mode == "mixed" {
		// one chain fed through both paths: a header import never lowers the head header's total difficulty and leaves it
		// at least as heavy as every header it has just written
		hh := bc.CurrentHeader()
		hhid, ok := t.ByHash[hh.Hash()]
		if !ok {
			w.violate("c02-head", "head-header-unknown", "head header is not a block of the tree")
			return
		}
		hhtd := t.Td(hhid)
		if op.Kind == 'H' {
			if w.lastHdrTd != nil && hhtd.Cmp(w.lastHdrTd) < 0 {
				w.violate("c02-header-head-td-decreased", "header-import-lowered-head-header", fmt.Sprintf("after %s: head header td went from %s to %s (head header now %d)", op, w.lastHdrTd, hhtd, hhid))
			}
			for _, id := range w.newHdrs {
				if x := t.Td(id); x.Cmp(hhtd) > 0 {
					w.violate("c02-header-head-not-heaviest", "head-header-lighter-than-written-header", fmt.Sprintf("after %s: head header %d has td %s but header %d written by this call has td %s", op, hhid, hhtd, id, x))
					break
				}
			}
		}
		// NOT judged: "the head header is never lighter than the head block". On the unchanged tree it fails in mixed
		// histories whose header imports went down another branch than the blocks (a number entry left above the block
		// head makes BlockChain.insert skip its head-header update); only counted.
		if cb := t.ByHash[bc.CurrentBlock().Hash()]; t.Td(cb).Cmp(hhtd) > 0 {
			w.run.Count("state:mixed-head-header-lighter-than-head-block")
		}
		w.lastHdrTd = new(big.Int).Set(hhtd)
	}
	var headHash common.Hash
	if w.mode == "headers" {
		headHash = bc.CurrentHeader().Hash()
	} else {
		headHash = bc.CurrentBlock().Hash()
	}
	hid, ok := t.ByHash[headHash]
	if !ok {
		w.violate("c02-head", "head-unknown", "head is not a block of the tree")
		return
	}
	htd := tdOf(hid)
	if htd == nil {
		w.violate("c02-td", "head-without-td", fmt.Sprintf("after %s: head %d has no td", op, hid))
		return
	}
	if !w.imports {
		w.lastTd = nil // the monotonicity / maximality clauses quantify over import histories only
		return
	}
	set := w.valid
	if w.mode == "headers" {
		set = w.given
	}
	ids := make([]int, 0, len(set))
	for id := range set {
		ids = append(ids, id)
	}
	sort.Ints(ids)
	for _, id := range ids {
		if x := t.Td(id); x.Cmp(htd) > 0 {
			w.violate("c02-head-not-heaviest", "head-not-heaviest", fmt.Sprintf("after %s: head %d has td %s but fully validated block %d has td %s", op, hid, htd, id, x))
			break
		}
	}
	if !set[hid] {
		w.violate("c02-head", "head-not-validated", fmt.Sprintf("after %s: head %d was never fully validated", op, hid))
	}
	if w.lastTd != nil && htd.Cmp(w.lastTd) < 0 {
		w.violate("c02-head-td-decreased", "head-td-decreased", fmt.Sprintf("after %s: head td went from %s to %s", op, w.lastTd, htd))
	}
	w.lastTd = new(big.Int).Set(htd)
}

// ancestryGap: the parent of node id is stored but some further ancestor is not.
func (w *world) ancestryGap(id int) bool {
	t := w.t
	p := t.Nodes[id].Parent
	if p < 0 || w.bc.GetHeader(t.Nodes[p].Block.Hash(), t.Nodes[p].Block.NumberU64()) == nil {
		return false
	}
	for a := t.Nodes[p].Parent; a >= 0; a = t.Nodes[a].Parent {
		if w.bc.GetHeader(t.Nodes[a].Block.Hash(), t.Nodes[a].Block.NumberU64()) == nil {
			return true
		}
	}
	return false
}

// ---- running a history ------------------------------------------------------------------------------------------------

// probe asks for nodes of the tree BY HASH through every by-hash accessor (they all resolve the number through
// HeaderChain.GetBlockNumber and its cache). Queries must be pure: they may not change what later calls return. For a node
// that is not in the database every answer must be nil/false; for a stored one they must agree with the (hash, number)
// accessors.
func (w *world) probe(ids []int, when string) {
	bc := w.bc
	for _, id := range ids {
		b := w.t.Nodes[id].Block
		h, n := b.Hash(), b.NumberU64()
		hasH, hasB := bc.GetHeader(h, n) != nil, bc.GetBlock(h, n) != nil
		w.run.Count(fmt.Sprintf("probe:by-hash:header-present=%v", hasH))
		bad := ""
		if (bc.GetHeaderByHash(h) != nil) != hasH {
			bad += " GetHeaderByHash"
		}
		if bc.HasHeader(h, n) != hasH {
			bad += " HasHeader"
		}
		if (bc.GetTdByHash(h) != nil) != (bc.GetTd(h, n) != nil) {
			bad += " GetTdByHash"
		}
		if (bc.GetBlockByHash(h) != nil) != hasB {
			bad += " GetBlockByHash"
		}
		if (bc.GetBody(h) != nil) != hasB {
			bad += " GetBody"
		}
		if bc.HasBlock(h, n) != hasB {
			bad += " HasBlock"
		}
		if (len(bc.GetBlocksFromHash(h, 1)) == 1) != hasB {
			bad += " GetBlocksFromHash"
		}
		if bad != "" {
			w.violate("c03-retrieve", "by-hash-differs-from-by-hash-and-number", fmt.Sprintf("%s: block %d (#%d) header stored=%v body stored=%v, but these by-hash accessors say otherwise:%s", when, id, n, hasH, hasB, bad))
		}
	}
}

func (w *world) exec(op Op) string {
	t := w.t
	return hx.Safe(func() string {
		switch op.Kind {
		case 'I':
			i, err := w.bc.InsertChain(t.Blocks(op.IDs))
			if err != nil {
				return fmt.Sprintf("%s@%d", errClass(err), i)
			}
			return "ok"
		case 'H':
			hs := make([]*types.Header, len(op.IDs))
			for i, id := range op.IDs {
				hs[i] = t.Nodes[id].Block.Header()
			}
			i, err := w.bc.InsertHeaderChain(hs, 1)
			if err != nil {
				return fmt.Sprintf("%s@%d", errClass(err), i)
			}
			return "ok"
		case 'S':
			if err := w.bc.SetHead(op.N); err != nil {
				return errClass(err)
			}
			return "ok"
		case 'R':
			w.bc.Stop()
			w.bc = t.OpenChain(w.db, w.cache)
			return "ok"
		}
		return "bad-op"
	})
}

func (w *world) runHistory(ops []Op) {
	run, t := w.run, w.t
	w.bc, w.db = t.NewChain(w.cache)
	defer func() { w.bc.Stop() }()
	w.valid, w.given = map[int]bool{0: true}, map[int]bool{0: true}
	w.imports = true
	for _, n := range t.Nodes {
		if n.Block.NumberU64() > w.maxH {
			w.maxH = n.Block.NumberU64()
		}
	}
	tree := renderTree(t)
	var opS, outS []string
	for _, op := range ops {
		opS = append(opS, op.String())
		w.hist = fmt.Sprintf("%s seed=%d mode=%s blocks=%s ops=%s", w.histID, run.Seed, w.mode, tree, strings.Join(opS, ";"))
		run.Current(w.hist)
		// which branch of insertChain2 will the first block of the batch take? (coverage counters)
		pruned := false
		if op.Kind == 'I' && len(op.IDs) > 0 {
			b := t.Nodes[op.IDs[0]].Block
			switch {
			case w.bc.HasBlockAndState(b.Hash(), b.NumberU64()):
				if w.bc.CurrentBlock().NumberU64() >= b.NumberU64() {
					run.Count("path:known-block-skipped")
				} else {
					run.Count("path:known-block-above-head-reimported")
				}
			case w.bc.HasBlock(b.ParentHash(), b.NumberU64()-1) && !w.bc.HasBlockAndState(b.ParentHash(), b.NumberU64()-1):
				pruned = true
			}
		}
		var absent []int
		if w.mode == "mixed" && op.Kind == 'H' {
			for _, id := range op.IDs {
				b := t.Nodes[id].Block
				if !w.bc.HasHeader(b.Hash(), b.NumberU64()) {
					absent = append(absent, id)
				}
			}
		}
		// ask BY HASH for the nodes of the batch before they are imported (and for one more node of the tree): queries are
		// pure, so this must not change the outcome of the import nor any later answer. Every second operation of every
		// second history is left unprobed so that query-free runs stay covered as well.
		if (op.Kind == 'I' || op.Kind == 'H') && (w.probeAll || (len(opS)+w.probeSalt)%2 == 0) {
			w.probe(op.IDs, "before "+op.String())
			w.probe([]int{(len(opS)*7 + w.probeSalt) % len(t.Nodes)}, "before "+op.String())
		}
		res := w.exec(op)
		w.newHdrs = w.newHdrs[:0]
		for _, id := range absent {
			b := t.Nodes[id].Block
			if w.bc.HasHeader(b.Hash(), b.NumberU64()) {
				w.newHdrs = append(w.newHdrs, id)
			}
		}
		if pruned {
			b := t.Nodes[op.IDs[0]].Block
			if w.bc.HasBlockAndState(b.Hash(), b.NumberU64()) {
				run.Count("path:pruned-ancestor-sidechain-overtook-winners-imported")
			} else {
				run.Count("path:pruned-ancestor-written-without-state")
			}
		}
		run.Count("op:" + w.mode + ":" + string(op.Kind))
		run.Count("res:" + strings.SplitN(strings.SplitN(res, "@", 2)[0], " ", 2)[0])
		if strings.HasPrefix(res, "panic") {
			// a crash inside the chain code: the deferred unlocks ran, the database is still readable. Classify the
			// situation (an ancestor of the batch missing below a stored parent = orphan left behind by a rewind).
			what := "panic-in-" + string(op.Kind)
			if len(op.IDs) > 0 && w.ancestryGap(op.IDs[0]) {
				what += ":ancestry-gap-left-by-rewind"
			}
			w.violate("panic", what, res)
			outS = append(outS, w.dump("panic"))
			break
		}
		if op.Kind == 'S' {
			w.imports = false
		}
		// bookkeeping for C02: which of the given blocks has the chain fully validated (stored together with its state)
		if op.Kind == 'I' {
			for _, nd := range t.Nodes { // includes stateless ancestors re-imported by the side-chain branch
				if b := nd.Block; w.bc.HasBlockAndState(b.Hash(), b.NumberU64()) {
					w.valid[nd.ID] = true
				}
			}
		}
		if op.Kind == 'H' {
			for _, id := range op.IDs {
				b := t.Nodes[id].Block
				if w.bc.HasHeader(b.Hash(), b.NumberU64()) {
					w.given[id] = true
				}
			}
		}
		d := w.dump(res)
		outS = append(outS, d)
		if w.prop == "C03" && !strings.HasPrefix(res, "panic") { // by-hash view of EVERY node of the tree after the call
			all := make([]int, len(t.Nodes))
			for i := range all {
				all[i] = i
			}
			w.probe(all, "after "+op.String())
		}
		w.judgeC02(op)
		if w.prop == "C03" {
			w.judgeC03(op)
		}
		w.stats(op, d)
	}
	if !w.noModel {
		run.Case(fmt.Sprintf("hist %s %s %s %s", w.prop, w.mode, tree, strings.Join(opS, ";")), strings.Join(outS, ";"))
	}
}

// stats: input-distribution counters (so that a degenerate generator is visible in the evidence).
func (w *world) stats(op Op, d string) {
	run, t, bc := w.run, w.t, w.bc
	head := bc.CurrentBlock()
	if w.mode == "headers" {
		head = t.Nodes[t.ByHash[bc.CurrentHeader().Hash()]].Block
	}
	hid := t.ByHash[head.Hash()]
	// exact ties / shorter-heavier situations among the validated blocks
	htd := t.Td(hid)
	set := w.valid
	if w.mode == "headers" {
		set = w.given
	}
	tie, shorter := false, false
	for id := range set {
		if id == hid {
			continue
		}
		c := t.Td(id).Cmp(htd)
		if c == 0 {
			tie = true
		}
		if c < 0 && t.Nodes[id].Block.NumberU64() > head.NumberU64() {
			shorter = true
		}
	}
	if tie {
		run.Count("state:exact-td-tie-with-head")
	}
	if shorter {
		run.Count("state:head-shorter-but-heavier")
	}
	if strings.Contains(d, "e=reorg-fail") {
		run.Count("state:reorg-failed")
	}
}

// Main is the entry point shared by cmd/c02 and cmd/c03.
func Main(prop string) {
	chainx.Quiet()
	run := hx.Start()
	rng := hx.NewRng(run.Seed)
	run.Watch(120*time.Second, 6<<30, func(cur string) string { return prop + ":watchdog" })
	nHist := 150
	if prop == "C03" {
		nHist = 170
	}
	if run.Thorough() {
		nHist *= 25
	}
	modes := []string{"archive", "pruning", "headers", "archive", "pruning"}
	for h := 0; h < nHist; h++ {
		r := rng.Fork(uint64(h))
		n := 5 + r.Intn(12)
		race := r.Intn(100) < 35
		if race {
			n = r.Intn(5)
			run.Count("tree:race-shape")
		}
		t := buildTree(r, n, []int{10, 30, 60}[r.Intn(3)], []int{0, 25, 50}[r.Intn(3)], race)
		mode := modes[h%len(modes)]
		w := &world{prop: prop, run: run, t: t, mode: mode, histID: fmt.Sprintf("hist#%d", h), probeSalt: h}
		switch mode {
		case "archive", "headers":
			w.cache = &core.CacheConfig{Disabled: true}
		case "pruning":
			w.cache = &core.CacheConfig{Disabled: false, TrieNodeLimit: 1, TrieTimeLimit: time.Millisecond}
		}
		run.Count(fmt.Sprintf("tree:blocks=%02d", len(t.Nodes)-1))
		run.Count("mode:" + mode)
		w.runHistory(genOps(r, t, prop, mode))
	}
	// Directed histories (C03): a rewind that leaves a side chain behind without its lower ancestors, then an import on
	// top of the orphans (formerly two nil dereferences, fixed by 2ee9efd / 7235ac1: now refused with ErrUnknownAncestor).
	if prop == "C03" {
		for di, mode := range []string{"headers", "pruning", "archive"} {
			r := rng.Fork(uint64(0xD1EC7 + di))
			t := chainx.NewTree(chainx.Opts{WithTxs: true, MinOffset: -9, MaxOffset: 400, ForkFree: true})
			var main []int
			tip := 0
			for i := 0; i < 4+r.Intn(3); i++ {
				tip = t.AddChild(r, tip).ID
				main = append(main, tip)
			}
			t.Opts.MinOffset, t.Opts.MaxOffset = 1500, 2000 // lighter side chain on top of the first block
			o1 := t.AddChild(r, main[0]).ID
			o2 := t.AddChild(r, o1).ID
			o3 := t.AddChild(r, o2).ID
			kind := byte('I')
			if mode == "headers" {
				kind = 'H'
			}
			ops := []Op{{Kind: kind, IDs: main}, {Kind: kind, IDs: []int{o1, o2}}}
			if mode == "pruning" {
				ops = append(ops, Op{Kind: 'R'})
			}
			ops = append(ops, Op{Kind: 'S', N: 0}, Op{Kind: kind, IDs: []int{o3}}, Op{Kind: kind, IDs: main}, Op{Kind: kind, IDs: []int{o1, o2, o3}})
			w := &world{prop: prop, run: run, t: t, mode: mode, histID: fmt.Sprintf("hist#orphan-%s", mode)}
			if mode == "pruning" {
				w.cache = &core.CacheConfig{Disabled: false, TrieNodeLimit: 1, TrieTimeLimit: time.Millisecond}
			} else {
				w.cache = &core.CacheConfig{Disabled: true}
			}
			run.Count("mode:directed-orphan-" + mode)
			w.runHistory(ops)
		}
	}
	// Directed histories (C03): successive rewinds on a restarted pruning node. The first SetHead lands on a block whose state
	// is gone (the block head falls back to genesis, the header head stays at the target, bodies and lookups stay), the
	// second one goes deeper: everything above ITS target must go — bodies, receipts, td, number entries, lookups — although
	// those blocks are above the block head. Variants: rewind–rewind, rewind–import–rewind, rewind–rewind–import–rewind.
	if prop == "C03" {
		for di := 0; di < 3; di++ {
			r := rng.Fork(uint64(0x2E71D + di))
			t := chainx.NewTree(chainx.Opts{WithTxs: true, MinOffset: -9, MaxOffset: 400, ForkFree: true})
			var main []int
			tip := 0
			for i := 0; i < 8+r.Intn(3); i++ {
				tip = t.AddChild(r, tip).ID
				main = append(main, tip)
			}
			side := t.AddChild(r, main[1]).ID
			a := uint64(5 + r.Intn(3))
			b := uint64(2 + r.Intn(2))
			ops := []Op{{Kind: 'I', IDs: main}, {Kind: 'R'}, {Kind: 'S', N: a}}
			switch di {
			case 0:
				ops = append(ops, Op{Kind: 'S', N: b}, Op{Kind: 'I', IDs: main})
			case 1:
				ops = append(ops, Op{Kind: 'I', IDs: main[:3]}, Op{Kind: 'S', N: b}, Op{Kind: 'I', IDs: []int{side}}, Op{Kind: 'I', IDs: main})
			default:
				ops = append(ops, Op{Kind: 'S', N: a - 1}, Op{Kind: 'I', IDs: []int{side}}, Op{Kind: 'S', N: 1}, Op{Kind: 'I', IDs: main[:4]}, Op{Kind: 'S', N: 0})
			}
			w := &world{prop: prop, run: run, t: t, mode: "pruning", histID: fmt.Sprintf("hist#rewind-twice-%d", di),
				cache: &core.CacheConfig{Disabled: false, TrieNodeLimit: 1, TrieTimeLimit: time.Millisecond}}
			run.Count("mode:directed-rewind-twice")
			w.runHistory(ops)
		}
	}
	// Directed histories: a long light branch carrying transactions in its top blocks is replaced by a shorter heavier one
	// in one reorganisation (number entries AND lookups of the blocks above the new height must go), full and header-first.
	for di, mode := range []string{"archive", "pruning", "headers"} {
		r := rng.Fork(uint64(0x5407 + di))
		t := chainx.NewTree(chainx.Opts{WithTxs: true, MinOffset: 1500, MaxOffset: 2000, ForkFree: true})
		a, b := 0, 0
		var long, short []int
		for i := 0; i < 10+r.Intn(2); i++ {
			a = t.AddChild(r, a).ID
			long = append(long, a)
		}
		t.Opts.MinOffset, t.Opts.MaxOffset = -9, 0
		for i := 0; i < len(long)-1 && t.Td(b).Cmp(t.Td(a)) <= 0; i++ {
			b = t.AddChild(r, b).ID
			short = append(short, b)
		}
		kind := byte('I')
		if mode == "headers" {
			kind = 'H'
		}
		ops := []Op{{Kind: kind, IDs: long}, {Kind: kind, IDs: short}}
		if mode == "pruning" {
			ops = []Op{{Kind: kind, IDs: long}, {Kind: 'R'}, {Kind: kind, IDs: short[:1]}, {Kind: kind, IDs: short[1:]}}
		}
		w := &world{prop: prop, run: run, t: t, mode: mode, histID: fmt.Sprintf("hist#shorter-heavier-%s", mode)}
		if mode == "pruning" {
			w.cache = &core.CacheConfig{Disabled: false, TrieNodeLimit: 1, TrieTimeLimit: time.Millisecond}
		} else {
			w.cache = &core.CacheConfig{Disabled: true}
		}
		run.Count("mode:directed-shorter-heavier-" + mode)
		w.runHistory(ops)
	}
	// Mixed histories (C02): ONE chain instance fed through InsertChain and InsertHeaderChain (the two paths share the
	// HeaderChain state: header store, td records, head header and the cached head-header hash used by WriteHeader).
	{
		nMixed := 24
		if run.Thorough() {
			nMixed *= 25
		}
		for h := 0; h < nMixed+9; h++ {
			r := rng.Fork(uint64(0xA11CE + h))
			var t *chainx.Tree
			var ops []Op
			if h < 9 {
				t, ops = directedMixed(r, h)
				run.Count("tree:directed-mixed")
				if h >= 6 { // is the header fork really heavier and shorter than the block chain it competes with?
					bl, hd := ops[0].IDs, ops[1].IDs
					if len(ops[1].IDs) < len(ops[3].IDs) && ops[3].Kind == 'H' {
						hd = ops[3].IDs
					}
					run.Count(fmt.Sprintf("tree:directed-shorter-header-fork:heavier=%v:shorter-by=%d", t.Td(hd[len(hd)-1]).Cmp(t.Td(bl[len(bl)-1])) > 0,
						int(t.Nodes[bl[len(bl)-1]].Block.NumberU64())-int(t.Nodes[hd[len(hd)-1]].Block.NumberU64())))
				}
			} else {
				t = buildTree(r, 5+r.Intn(10), []int{10, 30, 60}[r.Intn(3)], []int{0, 25, 50}[r.Intn(3)], r.Intn(100) < 30)
				ops = genMixedOps(r, t)
			}
			w := &world{prop: prop, run: run, t: t, mode: "mixed", histID: fmt.Sprintf("hist#mixed-%d", h), probeSalt: h,
				cache: &core.CacheConfig{Disabled: true}}
			run.Count("mode:mixed")
			w.runHistory(ops)
		}
		if prop == "C02" {
			concurrentWriters(run, rng.Fork(0xC0C0))
		}
	}
	// A chain longer than triesInMemory (128) on a pruning node with the default-sized cache: the states of the oldest
	// blocks are garbage collected DURING import (no restart involved). Not covered by the Lean model; judged directly.
	{
		r := rng.Fork(0xC0FFEE)
		t := chainx.NewTree(chainx.Opts{WithTxs: true, MinOffset: -9, MaxOffset: 400, ForkFree: true})
		side := t.AddChild(r, 0).ID
		side2 := t.AddChild(r, side).ID
		tip := 0
		var main []int
		for i := 0; i < 136; i++ {
			tip = t.AddChild(r, tip).ID
			main = append(main, tip)
		}
		w := &world{prop: prop, run: run, t: t, mode: "pruning", histID: "hist#long", noModel: true,
			cache: &core.CacheConfig{Disabled: false, TrieNodeLimit: 256, TrieTimeLimit: time.Hour}}
		ops := []Op{{Kind: 'I', IDs: []int{side}}}
		for i := 0; i < len(main); i += 17 {
			j := i + 17
			if j > len(main) {
				j = len(main)
			}
			ops = append(ops, Op{Kind: 'I', IDs: main[i:j]})
		}
		if prop == "C03" {
			// rewinds: onto a block with state; re-import; onto a block whose state was garbage collected during import (the
			// block head falls back to genesis); a second, deeper one from that state; an import; a third one
			ops = append(ops, Op{Kind: 'S', N: 130}, Op{Kind: 'I', IDs: main[130:]}, Op{Kind: 'S', N: 10}, Op{Kind: 'S', N: 4},
				Op{Kind: 'I', IDs: []int{side2}}, Op{Kind: 'I', IDs: main[:8]}, Op{Kind: 'S', N: 6}, Op{Kind: 'S', N: 2})
		} else {
			ops = append(ops, Op{Kind: 'I', IDs: []int{side2}}, Op{Kind: 'I', IDs: main[100:]})
		}
		run.Count("mode:pruning-long-chain(direct-judgement-only)")
		w.runHistory(ops)
	}
	run.Notes["histories"] = nHist
	run.Finish()
}

// ---- concurrent writers (C02) --------------------------------------------------------------------------------------------

// gateDB is a pass-through database whose next Put can be held up from outside: it only makes the interleaving of two
// writers reproducible, it never changes or drops data.
type gateDB struct {
	*aquadb.MemDatabase
	armed   int32
	reached chan struct{}
	release chan struct{}
}

func (db *gateDB) Put(key []byte, value []byte) error {
	if atomic.CompareAndSwapInt32(&db.armed, 1, 0) {
		close(db.reached)
		<-db.release
	}
	return db.MemDatabase.Put(key, value)
}

// concurrentWriters: InsertChain callers are serialised by chainmu, but the miner hands its sealed block to
// BlockChain.WriteBlockWithState directly. For sibling pairs (X heavier, M lighter; also equal twins) one goroutine imports
// X through InsertChain while another writes M through WriteBlockWithState, under a controlled schedule (the first writer is
// held at its first database write, i.e. inside the critical section, until the second writer has started) in both orders,
// and free-running. Judged at quiescence: td records, head = a heaviest of the validated blocks, head td never decreased
// between observations, head header on the head block. (The Lean model treats WriteBlockWithState as atomic; this section is
// what ties that assumption — the fork choice is made under bc.mu — to the code.)
func concurrentWriters(run *hx.Run, rng *hx.Rng) {
	nPairs := 4
	if run.Thorough() {
		nPairs = 12
	}
	for p := 0; p < nPairs; p++ {
		for sched := 0; sched < 3; sched++ {
			r := rng.Fork(uint64(p*7 + sched))
			t := chainx.NewTree(chainx.Opts{WithTxs: true, MinOffset: -9, MaxOffset: 400, ForkFree: true})
			tip := 0
			var shared []int
			for i := 0; i < 2+r.Intn(3); i++ {
				tip = t.AddChild(r, tip).ID
				shared = append(shared, tip)
			}
			twins := p%4 == 3
			if twins {
				t.Opts.MinOffset, t.Opts.MaxOffset = 5, 6
			} else {
				t.Opts.MinOffset, t.Opts.MaxOffset = -9, -8
			}
			X := t.AddChild(r, tip)
			if !twins {
				t.Opts.MinOffset, t.Opts.MaxOffset = 20+int64(r.Intn(300)), 400
			}
			M := t.AddChild(r, tip)
			hist := fmt.Sprintf("hist#concurrent-%d-%d seed=%d blocks=%s schedule=%d (0: import of X held inside its critical section, then miner writes M; 1: miner's write of M held, then X imported; 2: free running) X=%d M=%d", p, sched, run.Seed, renderTree(t), sched, X.ID, M.ID)
			run.Current(hist)
			db := &gateDB{MemDatabase: aquadb.NewMemDatabase(), reached: make(chan struct{}), release: make(chan struct{})}
			bc := t.OpenChain(db, &core.CacheConfig{Disabled: true})
			viol := func(kind, what, detail string) { run.Violate(kind, "C02:concurrent:"+what, hist, detail) }
			if _, err := bc.InsertChain(t.Blocks(shared)); err != nil {
				viol("harness", "shared-import-failed", err.Error())
				bc.Stop()
				continue
			}
			parent := t.Nodes[tip].Block
			statedb, err := bc.StateAt(parent.Root())
			if err != nil {
				viol("harness", "no-parent-state", err.Error())
				bc.Stop()
				continue
			}
			receipts, _, _, err := bc.Processor().Process(M.Block, statedb, vm.Config{})
			if err != nil {
				viol("harness", "process-failed", err.Error())
				bc.Stop()
				continue
			}
			tdBefore := bc.GetTd(bc.CurrentBlock().Hash(), bc.CurrentBlock().NumberU64())
			importX := func(done chan error) {
				_, err := bc.InsertChain(types.Blocks{X.Block})
				done <- err
			}
			writeM := func(done chan error) {
				_, err := bc.WriteBlockWithState(M.Block, receipts, statedb)
				done <- err
			}
			first, second := importX, writeM
			if sched == 1 {
				first, second = writeM, importX
			}
			d1, d2 := make(chan error, 1), make(chan error, 1)
			out := hx.Guard(60*time.Second, func() string {
				if sched < 2 {
					atomic.StoreInt32(&db.armed, 1)
					go first(d1)
					select {
					case <-db.reached:
					case <-time.After(20 * time.Second):
						return "first writer never reached the database"
					}
					go second(d2)
					time.Sleep(250 * time.Millisecond) // let the second writer run up to the lock
					close(db.release)
				} else {
					go first(d1)
					go second(d2)
				}
				e1, e2 := <-d1, <-d2
				if e1 != nil || e2 != nil {
					return fmt.Sprintf("writer failed: %v / %v", e1, e2)
				}
				return "ok"
			})
			run.Count(fmt.Sprintf("concurrent:schedule-%d", sched))
			if out != "ok" {
				viol("c02-concurrent", "writers-did-not-finish", out)
				continue
			}
			// judgement at quiescence
			head := bc.CurrentBlock()
			hid, known := t.ByHash[head.Hash()]
			best := t.Td(X.ID)
			if t.Td(M.ID).Cmp(best) > 0 {
				best = t.Td(M.ID)
			}
			htd := bc.GetTd(head.Hash(), head.NumberU64())
			switch {
			case !known || htd == nil:
				viol("c02-head", "head-unknown", "head unknown after the two writers")
			case htd.Cmp(best) != 0:
				viol("c02-head-not-heaviest", "head-not-heaviest-after-concurrent-writers", fmt.Sprintf("head %d has td %s; X=%d td %s, M=%d td %s were both fully validated", hid, htd, X.ID, t.Td(X.ID), M.ID, t.Td(M.ID)))
			case htd.Cmp(tdBefore) < 0:
				viol("c02-head-td-decreased", "head-td-decreased", fmt.Sprintf("head td %s below %s", htd, tdBefore))
			}
			if hh := bc.CurrentHeader(); hh.Hash() != head.Hash() {
				viol("c02-head", "head-header-differs", fmt.Sprintf("head header %x, head block %d", hh.Hash().Bytes()[:4], hid))
			}
			for _, nd := range []*chainx.Node{X, M} {
				if x := bc.GetTd(nd.Block.Hash(), nd.Block.NumberU64()); x == nil || x.Cmp(t.Td(nd.ID)) != 0 {
					viol("c02-td", "td-recurrence", fmt.Sprintf("td(%d)=%v, want %s", nd.ID, x, t.Td(nd.ID)))
				}
			}
			bc.Stop()
		}
	}
}

// ---- exhaustive small-scope enumeration of mixed histories (evidence for findings / candidate fixes) ---------------------

// EnumMixed runs EVERY history of up to maxLen operations over a fixed alphabet of batches (each as blocks or as bare
// headers) on a fixed 6-block tree with two branches, on a fresh real chain each, judges the C03 clauses after the last
// operation and prints, per clause, the number of failing histories and a shortest one.
func EnumMixed(maxLen int) {
	chainx.Quiet()
	r := hx.NewRng(7)
	t := chainx.NewTree(chainx.Opts{WithTxs: true, MinOffset: 100, MaxOffset: 101, ForkFree: true})
	a1 := t.AddChild(r, 0).ID
	a2 := t.AddChild(r, a1).ID
	a3 := t.AddChild(r, a2).ID
	t.Opts.MinOffset, t.Opts.MaxOffset = 130, 131
	b1 := t.AddChild(r, 0).ID // lighter sibling of a1
	t.Opts.MinOffset, t.Opts.MaxOffset = -9, -8
	b2 := t.AddChild(r, b1).ID // still lighter than a2
	b3 := t.AddChild(r, b2).ID // the b branch ends heavier than the a branch
	fmt.Printf("tree: %s\n", renderTree(t))
	for _, id := range []int{a1, a2, a3, b1, b2, b3} {
		fmt.Printf("  td(%d)=%s", id, t.Td(id))
	}
	fmt.Println()
	batches := [][]int{{a1}, {a1, a2}, {a1, a2, a3}, {a2, a3}, {a3}, {b1}, {b1, b2}, {b1, b2, b3}, {b2, b3}, {b3}}
	var alphabet []Op
	for _, b := range batches {
		alphabet = append(alphabet, Op{Kind: 'I', IDs: b}, Op{Kind: 'H', IDs: b})
	}
	type stat struct {
		n     int
		first string
		det   string
	}
	stats := map[string]*stat{}
	total, failing := 0, 0
	var rec func(prefix []Op)
	runOne := func(ops []Op) {
		total++
		w := &world{prop: "C03", t: t, mode: "mixed", cache: &core.CacheConfig{Disabled: true}}
		w.bc, w.db = t.NewChain(w.cache)
		defer w.bc.Stop()
		for _, n := range t.Nodes {
			if n.Block.NumberU64() > w.maxH {
				w.maxH = n.Block.NumberU64()
			}
		}
		var names []string
		for _, op := range ops {
			names = append(names, op.String())
			if res := w.exec(op); strings.HasPrefix(res, "panic") {
				w.collect = nil
				k := "panic"
				if stats[k] == nil {
					stats[k] = &stat{first: strings.Join(names, ";"), det: res}
				}
				stats[k].n++
				failing++
				return
			}
		}
		seen := map[string]bool{}
		w.collect = func(kind, what, detail string) {
			k := kind + ":" + what
			if seen[k] {
				return
			}
			seen[k] = true
			if stats[k] == nil {
				stats[k] = &stat{first: strings.Join(names, ";"), det: detail}
			}
			stats[k].n++
		}
		w.judgeC03Mixed(ops[len(ops)-1])
		if len(seen) > 1 || (len(seen) == 1 && !seen["state:block-head-not-on-header-chain"]) {
			failing++
		}
	}
	for L := 1; L <= maxLen; L++ { // by length, so that `first` is a shortest failing history
		rec = func(prefix []Op) {
			if len(prefix) == L {
				runOne(prefix)
				return
			}
			for _, op := range alphabet {
				rec(append(append([]Op{}, prefix...), op))
			}
		}
		rec(nil)
	}
	fmt.Printf("histories: %d (all sequences of 1..%d operations over %d batch operations), failing some clause: %d\n", total, maxLen, len(alphabet), failing)
	keys := make([]string, 0, len(stats))
	for k := range stats {
		keys = append(keys, k)
	}
	sort.Strings(keys)
	for _, k := range keys {
		fmt.Printf("  %-50s %6d   shortest: %-24s %s\n", k, stats[k].n, stats[k].first, stats[k].det)
	}
}
